#!/venv/bin/python
"""tools/mkknown.py <Cxx> <seed> <signature> <out.json> - regenerate the
directed replay of a known finding from a seed that exhibits it (used after a
harness change makes a committed known/*.json stale).  Run under
PYTHONHASHSEED=0; never run by a check."""
import os
import sys
if os.environ.get('PYTHONHASHSEED') != '0':
    os.environ['PYTHONHASHSEED'] = '0'
    os.execv(sys.executable, [sys.executable] + sys.argv)
sys.path.insert(0, os.path.dirname(os.path.dirname(os.path.abspath(__file__))))
from sim import runner, util   # noqa: E402

prop, seed, sig, out = sys.argv[1], int(sys.argv[2]), sys.argv[3], sys.argv[4]
mod = runner.load_check(prop)
case = runner.gen_case(mod, seed, 'quick')


def still(c):
    r = runner.run_one(mod, c)
    if 'harness' in r:
        return None
    for x in r.get('violations', []):
        if x['sig'] == sig:
            return r
    return None


assert still(case), 'seed does not exhibit %s' % sig
small = dict(runner.shrink_case(mod, case, still, budget_s=60))
assert still(small)
small['expect'] = {'sig': sig}
small['hashseed'] = '0'
with open(out, 'w') as f:
    f.write(util.dumps(small))
print('written', out)
