#!/venv/bin/python
"""Sensitivity: apply each seeded mutant to a scratch copy of /repo/src
(outside /repo and /verif), run the property's check against the copy and
require a VIOLATION.   tools/mutants.py [Cxx ...] [--runs N]"""
import glob
import json
import os
import shutil
import subprocess
import sys
import tempfile

ROOT = os.path.dirname(os.path.dirname(os.path.abspath(__file__)))


def main():
    args = sys.argv[1:]
    runs = None
    if '--runs' in args:
        i = args.index('--runs')
        runs = args[i + 1]
        del args[i:i + 2]
    props = [a.upper() for a in args]
    patches = sorted(glob.glob(os.path.join(ROOT, 'mutants', '*.patch')))
    results = {}
    for p in patches:
        name = os.path.basename(p)[:-6]
        prop = name.split('-')[0]
        if props and prop not in props:
            continue
        tmp = tempfile.mkdtemp(prefix='verif-mut-')
        try:
            shutil.copytree('/repo/src', os.path.join(tmp, 'src'))
            r = subprocess.run(['patch', '-p1', '-s', '-d', tmp, '-i', p],
                               capture_output=True, text=True)
            if r.returncode != 0:
                results[name] = 'PATCH-FAILED ' + r.stdout[-200:]
                print(name, results[name])
                continue
            env = dict(os.environ)
            env['VERIF_REPO_SRC'] = os.path.join(tmp, 'src')
            env['VERIF_EVIDENCE_DIR'] = os.path.join(tmp, 'evidence')
            env['VERIF_REPLAY_DIR'] = os.path.join(tmp, 'replays')
            cmd = [os.path.join(ROOT, 'check'), prop]
            if runs:
                cmd += ['--runs', runs]
            r = subprocess.run(cmd, capture_output=True, text=True, env=env,
                               timeout=1800)
            lines = [ln for ln in r.stdout.splitlines()
                     if ln.startswith('VIOLATION') or 'clause:' in ln]
            results[name] = {'exit': r.returncode,
                             'killed': r.returncode == 1,
                             'first': lines[:2]}
            print(name, 'KILLED' if r.returncode == 1 else
                  'SURVIVED exit=%d' % r.returncode, lines[1:2])
            if r.returncode == 2:
                print(r.stdout[-800:])
        finally:
            shutil.rmtree(tmp, ignore_errors=True)
    out = os.path.join(ROOT, 'mutants', 'results.json')
    old = {}
    if os.path.exists(out):
        old = json.load(open(out))
    old.update(results)
    json.dump(old, open(out, 'w'), indent=1, sort_keys=True)


if __name__ == '__main__':
    main()
