#!/venv/bin/python
"""Confirm and evaluate a change written by an independent sub-agent.

  tools/seeded.py import <worktree> <name>   copy patch.diff / demo.py / meta.json
                                             into seeded/<name>/ and confirm them
  tools/seeded.py run [name ...] [--tier T] [--all-checks] [--check Cxx]
                                             run the property's check (or all)
                                             against each kept change

Everything runs on scratch copies of /repo (outside /repo and /verif), removed
afterwards; nothing is ever applied to /repo itself."""
import glob
import json
import os
import shutil
import subprocess
import sys
import tempfile

ROOT = os.path.dirname(os.path.dirname(os.path.abspath(__file__)))
PY = '/venv/bin/python'
SUITE = [PY, '-m', 'pytest', '-q', '-p', 'no:cacheprovider', '-x',
         '--ignore=tests/common/test_admin.py',
         '--ignore=tests/async/test_admin.py']


def scratch(patch=None):
    tmp = tempfile.mkdtemp(prefix='verif-seeded-')
    subprocess.run(['git', '-C', '/repo', 'worktree', 'add', '-q', '--detach',
                    os.path.join(tmp, 'r'), 'HEAD'], check=True)
    r = os.path.join(tmp, 'r')
    if patch:
        p = subprocess.run(['git', '-C', r, 'apply', patch],
                           capture_output=True, text=True)
        if p.returncode != 0:
            cleanup(tmp)
            raise RuntimeError('patch does not apply: ' + p.stderr[-300:])
    return tmp, r


def cleanup(tmp):
    subprocess.run(['git', '-C', '/repo', 'worktree', 'remove', '--force',
                    os.path.join(tmp, 'r')], capture_output=True)
    shutil.rmtree(tmp, ignore_errors=True)
    subprocess.run(['git', '-C', '/repo', 'worktree', 'prune'],
                   capture_output=True)


def run_demo(r, demo):
    env = dict(os.environ, PYTHONPATH=os.path.join(r, 'src'))
    shutil.copy(demo, os.path.join(r, 'demo.py'))
    p = subprocess.run([PY, 'demo.py'], cwd=r, env=env, capture_output=True,
                       text=True, timeout=300)
    return p.returncode, (p.stdout + p.stderr)[-400:]


def do_import(wt, name):
    d = os.path.join(ROOT, 'seeded', name)
    os.makedirs(d, exist_ok=True)
    for f in ('patch.diff', 'demo.py', 'meta.json'):
        if os.path.abspath(wt) != os.path.abspath(d):
            shutil.copy(os.path.join(wt, f), os.path.join(d, f))
    meta = json.load(open(os.path.join(d, 'meta.json')))
    patch = os.path.join(d, 'patch.diff')
    demo = os.path.join(d, 'demo.py')
    ran = {}
    # without the change
    tmp, r = scratch()
    try:
        code, out = run_demo(r, demo)
        ran['demo_without_change'] = {'exit': code, 'tail': out[-200:]}
    finally:
        cleanup(tmp)
    # with the change
    tmp, r = scratch(patch)
    try:
        code, out = run_demo(r, demo)
        ran['demo_with_change'] = {'exit': code, 'tail': out[-200:]}
        env = dict(os.environ, PYTHONPATH=os.path.join(r, 'src'))
        p = subprocess.run(SUITE, cwd=r, env=env, capture_output=True,
                           text=True, timeout=900)
        ran['suite_with_change'] = {'exit': p.returncode,
                                    'tail': p.stdout.strip()[-160:]}
    finally:
        cleanup(tmp)
    ok = ran['demo_without_change']['exit'] == 0 and \
        ran['demo_with_change']['exit'] != 0 and \
        ran['suite_with_change']['exit'] == 0
    meta['confirmed'] = ok
    meta['what_i_ran'] = ran
    json.dump(meta, open(os.path.join(d, 'meta.json'), 'w'), indent=1)
    print(name, 'CONFIRMED' if ok else 'NOT CONFIRMED', json.dumps(ran)[:600])
    return ok


def do_run(names, tier='quick', all_checks=False, runs=None, only=None):
    dirs = sorted(glob.glob(os.path.join(ROOT, 'seeded', '*', 'meta.json')))
    for mpath in dirs:
        d = os.path.dirname(mpath)
        name = os.path.basename(d)
        if names and name not in names:
            continue
        meta = json.load(open(mpath))
        if not meta.get('confirmed'):
            continue
        prop = meta['property']
        props = [prop]
        if all_checks:
            m = json.load(open(os.path.join(ROOT, 'MANIFEST.json')))
            props = [c['property_id'] for c in m['checks']]
        if only:
            props = list(only)
        try:
            tmp, r = scratch(os.path.join(d, 'patch.diff'))
        except RuntimeError as e:
            print(name, 'PATCH-STALE (rebase it onto /repo HEAD):', e)
            continue
        results = meta.setdefault('checks', {})
        try:
            for pr in props:
                env = dict(os.environ)
                env['VERIF_REPO_SRC'] = os.path.join(r, 'src')
                env['VERIF_EVIDENCE_DIR'] = os.path.join(tmp, 'evidence')
                env['VERIF_REPLAY_DIR'] = os.path.join(tmp, 'replays')
                cmd = [os.path.join(ROOT, 'check'), pr, '--tier', tier]
                if runs:
                    cmd += ['--runs', str(runs)]
                p = subprocess.run(cmd, capture_output=True, text=True,
                                   env=env, timeout=3600)
                cl = [ln.strip() for ln in p.stdout.splitlines()
                      if 'clause:' in ln]
                import re
                m = re.search(r'(\d+) violating runs \((\d+) known classes, '
                              r'(\d+) new\)', p.stdout)
                nviol = int(m.group(1)) if m else None
                results['%s/%s' % (pr, tier)] = {
                    'exit': p.returncode, 'clauses': cl[:3],
                    'violating_runs': nviol}
                print(name, pr, tier, 'DETECTED' if p.returncode == 1 else
                      'exit=%d' % p.returncode, cl[:1],
                      'violating_runs=%s' % nviol)
        finally:
            cleanup(tmp)
        json.dump(meta, open(mpath, 'w'), indent=1)


def main():
    a = sys.argv[1:]
    if a and a[0] == 'import':
        return 0 if do_import(a[1], a[2]) else 1
    if a and a[0] == 'run':
        tier = 'quick'
        allc = '--all-checks' in a
        runs = None
        only = []
        names = []
        i = 1
        while i < len(a):
            if a[i] == '--tier':
                tier = a[i + 1]
                i += 2
            elif a[i] == '--runs':
                runs = a[i + 1]
                i += 2
            elif a[i] == '--all-checks':
                i += 1
            elif a[i] == '--check':       # run this check instead
                only.append(a[i + 1])
                i += 2
            else:
                names.append(a[i])
                i += 1
        do_run(names, tier, allc, runs, only)
        return 0
    print(__doc__)
    return 2


if __name__ == '__main__':
    sys.exit(main())
