"""setup_cmd helper: the framework is plain Python; verify it imports and
that one simulated run in each world works."""
import os
import sys
ROOT = os.path.dirname(os.path.dirname(os.path.abspath(__file__)))
sys.path.insert(0, ROOT)
sys.path.insert(0, '/repo/src')
from sim.world import make_world  # noqa
from sim import sio  # noqa

for mode in ('async', 'thread'):
    w = make_world(mode, seed=1)
    srv = w.add_server('s')
    p = w.add_peer()
    p.open()
    w.settle()
    p.send_pkt(sio.CONNECT, '/', None, None)
    w.settle()
    assert p.rx and p.rx[0]['pkt'].type == sio.CONNECT, p.rx
    w.close()
print('selfcheck ok')
