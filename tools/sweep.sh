#!/bin/bash
# tools/sweep.sh <first_seed> <last_seed> [checks...]: run quick tiers under many base seeds, print anything that is not exit 0
a=$1; b=$2; shift; shift
checks=${@:-C02 C03 C04 C05 C06 C07 C08 C09 C10 C11 C12 C13 C14 C15 C16 C18 C19 C20}
for s in $(seq $a $b); do for c in $checks; do
  out=$(VERIF_SEED=$s VERIF_EVIDENCE_DIR=/tmp/sweep-ev VERIF_REPLAY_DIR=/tmp/sweep-replays ./check $c 2>&1); rc=$?
  if [ $rc -ne 0 ]; then echo "SEED $s $c exit=$rc"; echo "$out" | grep -v "^KNOWN" | tail -6 | cut -c1-400; fi
done; done; echo SWEEP-DONE
