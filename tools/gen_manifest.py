#!/usr/bin/env python3
"""Regenerates MANIFEST.json from the table below (kept in one place so the
manifest stays valid while checks are added)."""
import json
import os

ROOT = os.path.dirname(os.path.dirname(os.path.abspath(__file__)))

NOTE = ('Trusted base: python-engineio, asyncio, threading, json/msgpack/'
        'pickle run for real and are trusted; the byte pipe, clock, '
        'scheduler, entropy and application are simulator stubs. Sampling, '
        'not proof: a clean batch is evidence for the explored seeds.')

CHECKS = {
    'C02': ('DESIGN 4/C02',
            'Seeded search over the configuration grid {Server+Client, '
            'AsyncServer+AsyncClient} x {default, msgpack} x {websocket / '
            'base64 text framing} x 1-3 namespaces x {function handlers, '
            'class-based namespaces} x {sync, coroutine}: real client stack '
            'talks to real server stack (real engine.io on both sides) over '
            'the simulated pipe with latency jitter and back-pressure; per '
            'direction a single sender issues up to N emit/send/call '
            'messages with generated event names, JSON+bytes payloads and '
            'handler return values; oracle = per-message expected argument '
            'list under typed deep equality, per-pair FIFO, callback and '
            'call() result shaping. Payloads include dicts that resemble '
            'the attachment placeholder; dicts that ARE placeholders on the '
            'wire next to bytes are the known finding '
            'C02:placeholder_lookalike, exercised in a separate last phase.'),
    'C03': ('DESIGN 4/C03',
            'Seeded search over histories of room operations, lifecycle '
            'events and emits (to = None / room / list / sid, skip_sid = None '
            '/ sid / list) for 2-6 wire peers on 1-3 namespaces against the '
            'real Manager (thread world) and AsyncManager (asyncio world); '
            'oracle = reference room model: exact per-connection recipient '
            'multiset for every emit and rooms() equality after every op.'),
    'C04': ('DESIGN 4/C04',
            'Seeded search over connection-lifecycle histories (CONNECT with '
            'generated auth and connect-handler behaviours, DISCONNECT, '
            'transport loss, server.disconnect, ping timeout after a clock '
            'jump) with 2-3 concurrent terminating causes at seeded offsets '
            'while handlers and sends are suspended (asyncio server; the '
            'threaded server sequentially); oracle = exactly-once history '
            'checks, admissible reasons, freshness, no delivery afterwards, '
            'other namespaces unaffected.'),
    'C06': ('DESIGN 4/C06',
            'Seeded search over histories of emit-with-callback / call() to '
            'individual clients interleaved with adversarial ACK / BINARY_ACK '
            'frames (right, used, never issued incl. 0 and huge, outstanding '
            'for another peer or on another namespace), disconnects, '
            'reconnects and virtual-time advances past call() timeouts, on '
            'the threaded and asyncio servers; oracle = outstanding-id model: '
            'id uniqueness, callback at most once and only for its '
            'connection+namespace+id with exactly the acknowledged arguments, '
            'wrong ACKs cause no callback and no contained error, call() '
            'result shaping and TimeoutError.'),
    'C07': ('DESIGN 4/C07',
            'Seeded search over placements of 3-8 wire peers on 2-4 real '
            'servers (threaded or asyncio) joined by a simulated ordered '
            'pub/sub bus (pickled messages, per-host seeded consumption lag), '
            'optionally with a write-only manager, and histories of room '
            'operations, disconnects, emits (with/without callback) and '
            'ACKs issued on arbitrary hosts; immediate regime: exact '
            'refinement against one reference room model (recipient set per '
            'emit, never twice, rooms() on the owner, callback exactly once '
            'on the issuer with the remote ACK); lagged regime: at most once, '
            'only to clients addressed at some instant of the flight window '
            '(incl. membership changes themselves in flight), exact for '
            'unraced emits, callbacks exactly once after the final drain.'),
    'C08': ('DESIGN 4/C08',
            'Seeded search over client histories: connect(namespaces as '
            'None/str/list, auth value or callable, wait T/F) answered by a '
            'scripted server (real engine.io) per namespace with accept / '
            'refuse / silence in seeded order and delays, emit/send/call on '
            'connected and unconnected namespaces, disconnect(), server '
            'DISCONNECT of one or all namespaces, engine.io CLOSE, transport '
            'loss at any point incl. mid binary packet and with callbacks '
            'outstanding, and further connects; Client and AsyncClient, '
            'function handlers and class-based namespaces; oracle = client '
            'mirror model (CONNECT frames and auth, ConnectionError and full '
            'reset on partial acceptance, namespaces / get_sid / connected '
            'mirror, BadNamespaceError without frames, connect handler once, '
            'disconnect handler once per connected namespace, nothing '
            'survives into the next connection).  Also a client with '
            'automatic reconnection (losses mid binary packet / with '
            'callbacks outstanding; the connection it makes by itself is '
            'judged the same way) and a CONNECT reply arriving together '
            'with the loss of the transport under free thread schedules.  '
            'Known findings: C08:root_namespace_refusal_resets_client, '
            'C08:late_connect_reply_after_transport_loss.'),
    'C09': ('DESIGN 4/C09',
            'Seeded search over histories of server-sent EVENT / BINARY_EVENT '
            '/ ACK / BINARY_ACK frames from a scripted server (real engine.io, '
            'scripted Socket.IO layer) with adversarial ids, interleaved with '
            'client emits with callbacks and call()s on 1-3 namespaces, for '
            'the real Client (fifo thread schedule) and AsyncClient with '
            'pausing coroutine handlers and callbacks; oracle = precedence '
            'model for the responsible handler, exact ACK multiset at the '
            'server, outstanding-id model for callbacks, call() shaping and '
            'TimeoutError in virtual time.'),
    'C10': ('DESIGN 4/C10',
            'Seeded search over configurations (delay, delay_max, '
            'randomization factor, attempts, reconnection on/off) x causes '
            'of the end (abrupt loss told at once / late / never -> ping '
            'timeout, client disconnect(), server DISCONNECT, engine.io '
            'CLOSE) x fault patterns for up to 8 attempts (transport refusal, '
            'namespace refusal, accept) x shutdown() inside a back-off x a '
            'second loss right after a success, with the real client and '
            'real engine.io state machine in virtual time; oracle on the '
            'recorded attempts: wait intervals within nominal +- jitter, '
            'identical parameters and auth, attempt bound, none after '
            'success / shutdown / intentional end, one effort at a time, '
            'liveness once the pattern accepts.'),
    'C11': ('DESIGN 4/C11',
            'Seeded search over generations of wire peers living random lives '
            '(connects incl. refused, rooms, events incl. malformed, binary '
            'packets cut short, unanswered callbacks) ended by any cause '
            '(DISCONNECTs+close, sever, server.disconnect, engine.io CLOSE, '
            'half-open until ping timeout in virtual time) with a seeded '
            'subset of application handler invocations raising; oracle = '
            'nothing of an ended transport is listed anywhere, final '
            'structural snapshot equals a freshly built server, reachable '
            'object graph does not grow across generations.'),
    'C12': ('DESIGN 4/C12',
            'Seeded search over sequences of hostile offender frames '
            '(grammar mutations of valid packets, a catalogue of malformed / '
            'mistyped / absurd-count / deep-nesting frames, random text and '
            'bytes; msgpack: mutated maps) in flight together with events, '
            'acks, room emits and callbacks of 2-3 bystanders, on both '
            'servers and both serializers; oracle = bystander traces '
            '(invocations, exact per-connection frame multiset, callbacks, '
            'rooms, sessions) equal the prediction from their own traffic, '
            'surely-undecodable frames invoke no handler, liveness round '
            'trip afterwards, tracemalloc growth bounded by bytes received.'),
    'C13': ('DESIGN 4/C13',
            'The finite grid of 768 registry configurations (2**6 presence '
            'combinations x other-handlers x Server/AsyncServer/Client/'
            'AsyncClient x sync/coroutine) is enumerated completely in every '
            'tier; each cell is run end to end through the simulator with '
            'seeded names and arguments: one ordinary event, an unregistered '
            'event, and the reserved events as raised by the real lifecycle '
            '(accepted connect, refusal -> connect_error, disconnect by '
            'client / server / transport loss). Oracle = the documented '
            'precedence table: exactly the expected target ran, once, with '
            'the documented argument prefix; reserved events never reach a '
            'catch-all event handler.'),
    'C14': ('DESIGN 4/C14',
            'Differential simulation: scenarios drawn from the workload '
            'generators of the other checks (server + wire peers incl. '
            'hostile frames, real clients + scripted server, two to four '
            'hosts on a bus incl. garbage messages, simple client) are '
            'executed once in the thread world against Server / Client / '
            'Manager / PubSubManager / Namespace / SimpleClient and once in '
            'the asyncio world against their asyncio twins, with zero '
            'latencies and pauses so that neither trace depends on a '
            'schedule; oracle = equal per-peer frame sequences, equal bus '
            'publications per host, equal handler and callback invocations '
            'per client, equal results / exception types of every API call, '
            'and equal verdicts of the scenario\'s own oracle.'),
    'C15': ('DESIGN 4/C15',
            'Seeded search over channel sequences written by a foreign '
            'publisher into the simulated bus of 1-2 real servers (both '
            'kinds): random bytes, truncated / bit-flipped pickles, pickles '
            'and JSON of non-dicts, dicts with missing or mistyped fields, '
            'unknown methods, echoes carrying the server\'s own host id, '
            'callbacks for other hosts / unknown ids / malformed, valid '
            'messages whose application callback or disconnect handler '
            'raises, and failures of the listen iterator itself; after every '
            'item a sentinel emit. Oracle = every sentinel delivered exactly '
            'once (bounded liveness), listener consumed the whole channel, '
            'own echoes not re-applied, misaddressed callbacks do not fire. '
            '(Byte strings that make pickle itself allocate unboundedly are '
            'excluded - a hazard of pickle, stated in DESIGN.)'),
    'C16': ('DESIGN 4/C16',
            'Seeded search over histories of save_session / get_session / '
            'session() blocks (directly and through class-based namespace '
            'helpers) interleaved with namespace DISCONNECTs, '
            'server.disconnect, transport loss, re-CONNECT on the same '
            'transport and reconnect on a new one, for 2-4 wire peers on 1-3 '
            'namespaces, both servers; oracle = model sessions[(sid, ns)]; a '
            'shadow model of the known defect (session keyed by transport + '
            'namespace surviving a namespace re-connect) classifies that one '
            'history pattern as KNOWN-FINDING, everything else is a '
            'VIOLATION.'),
    'C18': ('DESIGN 4/C18',
            'Twin simulation: the same seeded application history (connects, '
            'rooms, events with acks incl. binary, emits with skip_sid, '
            'callbacks, disconnects) is executed on a plain server and on an '
            'instrument()ed twin (Server and AsyncServer; auth as dict / list '
            '/ sync / async predicate / False; development / production; '
            'read_only on/off) with 0-2 admin wire peers connected; before '
            'it, a list of admin CONNECT attempts with generated auth '
            'payloads (absent, None, non-dicts, sub/supersets, permuted, '
            'type-confused, nested, operator-like); in read-only mode every '
            'admin command with real rooms and sids. Oracle = accept iff '
            'disabled / equal / member / predicate, refused attempts gain no '
            'membership, read-only commands have no effect, per-peer '
            'application traces equal between the twins.'),
    'C19': ('DESIGN 4/C19',
            'Seeded search over producer/consumer schedules: a consumer '
            'script (receive with timeout None/small/large, emit, call, '
            'sleep) on SimpleClient (thread world, uniform random and PCT '
            'schedules with pre-emption at every event primitive and every '
            'input_buffer operation; engine.io itself not pre-empted inside) '
            'and AsyncSimpleClient (await-point interleavings via seeded '
            'arrival times) against a real server emitting a numbered '
            'stream, with losses of connection followed by successful '
            'reconnection, exhausted reconnection and server DISCONNECT; '
            'oracle = receive() returns exactly the arrival sequence, '
            'TimeoutError only while nothing is available, DisconnectedError '
            'only after the final end and after the buffer is drained, no '
            'consumer blocked at quiescence with input available or after '
            'the final end, emit/call wait out a reconnection.'),
    'C20': ('DESIGN 4/C20',
            'Seeded search over thread interleavings (uniform random and PCT '
            'd=1..3) of 2-3 concurrent terminating actions on one sid of the '
            'threaded server, pre-empting at every manager / engine.io access '
            'and, in a share of the runs, at every source line of server.py / '
            'base_manager.py / manager.py; oracle = handler exactly once, no '
            'exception in any thread, no residue. The known check-then-mark '
            'window is reported as KNOWN-FINDING by its history signature; '
            'any other violation is a VIOLATION.'),
    'C05': ('DESIGN 4/C05',
            'Seeded search over histories of EVENT/BINARY_EVENT frames from '
            '2-4 wire peers with colliding ack ids, connects, disconnects and '
            'severs, against the real threaded and asyncio servers on real '
            'engine.io, under seeded latencies, handler pauses and (thread '
            'world) fifo/random/PCT schedules; oracle = expected invocation '
            'and exact per-connection ACK multiset from a precedence/'
            'connectivity model.'),
}

NA = [
    {'property_id': 'C01', 'reason':
     'Packet.encode/decode is a pure function of its input: no task, thread, '
     'timer, peer, I/O or fault exists for a simulator to schedule or inject; '
     'deterministic simulation has nothing to decide (DESIGN 4/C01).'},
    {'property_id': 'C17', 'reason':
     'Each namespace helper is a one-line delegation; the property is about '
     'argument forwarding for every subset of optional arguments, with no '
     'schedule, clock, peer or fault in it (DESIGN 4/C17).'},
]


def main():
    checks = []
    for pid in sorted(CHECKS):
        ref, text = CHECKS[pid]
        checks.append({
            'property_id': pid,
            'quick_cmd': './check %s --tier quick' % pid,
            'thorough_cmd': './check %s --tier thorough' % pid,
            'evidence_file': 'evidence/%s.json' % pid,
            'replay_cmd_template': './check %s --replay {path}' % pid,
            'engine': 'dsim',
            'level_claimed': {'category': 'exploration', 'text': text,
                              'design_ref': ref},
            'level_note': NOTE,
            'technique': 'deterministic simulation with fault injection: '
                         'seeded search over schedules, latencies and fault '
                         'sequences against a reference model',
        })
    claimed = set(CHECKS)
    na = list(NA)
    for i in range(1, 21):
        pid = 'C%02d' % i
        if pid not in claimed and not any(x['property_id'] == pid
                                          for x in na):
            na.append({'property_id': pid, 'reason':
                       'check not built yet (in progress); not claimed'})
    m = {
        'version': 1,
        'setup_cmd': '/venv/bin/python -c "import socketio, engineio, '
                     'msgpack, bidict, simple_websocket" && '
                     '/venv/bin/python tools/selfcheck.py',
        'hooks': {
            'guard': 'PYTHON_SOCKETIO_VERIF',
            'enable': 'no hook exists in /repo: every seam is an existing '
                      'virtual method, constructor argument, driver table or '
                      'module attribute (DESIGN 1); checks import socketio '
                      'from /repo/src as it is',
            'baseline_off_cmd': 'cd /repo && /venv/bin/python -m pytest -q '
                                '-p no:cacheprovider --timeout=900',
            'source_commits': [],
            'add_only': True,
        },
        'engines': [{
            'name': 'dsim', 'path': 'sim/',
            'serves_properties': sorted(claimed),
            'kind_free_text': 'deterministic simulator: virtual-time asyncio '
                              'loop, baton-passing thread kernel, simulated '
                              'websocket pipes and pub/sub bus, seeded '
                              'choices, ddmin shrinker, replay files'}],
        'checks': checks,
        'not_applicable': sorted(na, key=lambda x: x['property_id']),
        'notes': 'Exit codes: 0 held / 1 VIOLATION / 2 harness fault. '
                 'VERIF_SEED, VERIF_WORKERS, VERIF_BUDGET_S honoured.',
    }
    with open(os.path.join(ROOT, 'MANIFEST.json'), 'w') as f:
        json.dump(m, f, indent=1)
        f.write('\n')


if __name__ == '__main__':
    main()
