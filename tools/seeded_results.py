#!/venv/bin/python
"""Regenerate seeded/RESULTS.md from seeded/*/meta.json (written by
tools/seeded.py import / run) plus the hand-written notes below."""
import glob
import json
import os

ROOT = os.path.dirname(os.path.dirname(os.path.abspath(__file__)))

NOTES = """
## Checks that had to be strengthened before they caught a change

First round (a):

* **C04-a** (server.disconnect marks after the send): needed *suspending sends* - the boundary socketio -> engine.io became a seeded suspension point in the asyncio world (`send_pauses`, buggify) - and a new racing cause `cdisc_reconnect` (client leaves and re-joins the namespace on the same transport during the race).
* **C05-a** (binary packet released after dispatch): needed handlers that raise (fault `handler_raise`, seeded) in C05.
* **C06-a / C09-a** (callback removed after the call): needed callbacks that raise, and (C09) coroutine callbacks that pause with a duplicate ACK in flight.
* **C11-a** (enter_room for a gone client stores a None transport): needed late API calls naming a gone session id and a resident peer keeping the namespace alive; this also exposed a defect of the unchanged tree (fix b7d0434).
* **C02-a** (AsyncClient clears the binary packet after the handler): needed handlers that pause in C02.
* **C12-a** (DISCONNECT for a namespace the sender never joined runs the handler with sid None): needed the clause "a handler only ever runs for a session id the server has issued".
* **C20-a** (mark after the send in the threaded server): the known-finding signature was too coarse (any two successful checks); it now requires that each thread's check is immediately followed by its mark, so a *wider* window is a VIOLATION.
* **C18-a** (`is False` instead of falsiness for the predicate): the generated predicates now return falsy non-bools for "no", as the common idiom does.

Second round (b):

* **C04-b** (unserved namespace accepted through the class-based catch-all): the C04 registry only had function handlers; it now generates function and class-based catch-all (`'*'`) handlers with varying arity.
* **C05-b** (`sid is None` instead of `is_connected`): needed a *server-initiated* disconnect whose handler pauses while events of the same client are in flight (`sdisc` op), so that an event meets a session in pending-disconnect state.
* **C07-b** (relayed ack with an empty payload dropped): ack payloads were always non-empty; they now vary over `()`, one, several, falsy values.
* **C11-b** (early return in disconnect() when environ is gone): needed the ends `sdisc_ping_expired` / `emit_ping_expired` (server API call on a session whose transport has silently expired).
* **C12-b** (class-level msgpack Unpacker): the violation depends on state that survives in the *process*, so a single-case replay in a fresh interpreter did not reproduce it.  The runner now forks a fresh child per chunk of seeds and, if the minimised single case does not reproduce, writes a replay with the `prefix` of seeds that ran before it in the chunk.
* **C14-b** (asyncio manager tolerates an ACK without payload): needed malformed ACK packets (`malformed_acks`) in the c06 sub-scenario of the differential check.
* **C15-b** (CancelledError from an application callback kills the listener): needed coroutine callbacks that raise CancelledError.
* **C16-b** (session() works on a copy): needed the `overlap` op (two session() blocks of the same sid interleaved, or save_session inside a block) and a shadow model of the stored dict.
* **C18-b** (instrumented leave_room raises where the plain one does not): needed `leave_ghost` (leave a room in a namespace with no rooms) and skip_sid emits.
* **C19-b** (DisconnectedError before buffered events are returned): the oracle now has a `final_disconnect` marker (wrapping `connected_event.set`) and requires every event that arrived before it to be returned first.
* **C20-b** (mark removed at the top of basic_disconnect): the known-finding signature was refined a second time: a later check counts as the known window only if it *started* while another thread was between its successful check and the completion of its mark.

Third round (c) - 8 of 18 missed at first:

* **C02-c** (placeholder recognised by key presence instead of truthiness): payloads never contained dicts resembling the attachment placeholder. `gen_value` now produces look-alikes that are *not* placeholders (falsy `_placeholder`, only one of the two keys). Dicts that *are* placeholders on the wire (`{'_placeholder': truthy, 'num': n}` next to bytes) violate C02 on the unchanged tree - recorded as known finding `C02:placeholder_lookalike` and exercised in a separate final phase of the run so that it cannot mask anything else.
* **C04-c** (TypeError fallback of the connect handler moved out of the try that catches ConnectionRefusedError; threaded server): generated handlers were all `*args`. Connect handlers now also come with the fixed signatures `(sid, environ, auth)` / `(sid, environ)` and disconnect handlers with the legacy `(sid)`.
* **C12-c** (stray ACK creates an empty callbacks dict; a later emit with callback raises KeyError at the offender): needed an emit *with a callback* to a room that contains the offender as well as the bystanders.
* **C14-c** (asyncio server catches a raising disconnect handler around the whole namespace loop): the differential check ran every sub-scenario with all-plain choice streams, i.e. no handler ever raised. Handler and callback failures are now placed by *content* (who is concerned, how often that handler ran for them) in the c05/c06/c09/c11 sub-scenarios, identical in both worlds.
* **C15-c** (AsyncRedisManager unsubscribes in a `finally` of its listen generator): needed junk messages on the Redis back ends (previously only outages) and asyncio's async-generator finaliser hooks in SimLoop (an abandoned generator is closed later by a task of the loop, as under `run_forever`).
* **C18-c** (instrumented `_trigger_event` stores the timestamp after the connect handler): application connect handlers were trivial. They now refuse, kick the client, enter rooms, emit, or pause while the transport is lost.
* **C19-c** (`connected_event.set()` before `connected = False`): needed (1) a pre-emption point *after* `Event.set()/clear()` in the thread kernel, (2) a consumer step that becomes runnable the moment the client notices the loss and then calls emit(), (3) the clause "an emit()/call() released from its wait after the final disconnect began must not return normally", plus delivery of every emit on a healthy connection.
* **C20-c** (enter_room split into a server-level check and a manager access): needed a third application thread making a non-terminating call on the same session id, and a second client keeping the namespace alive (access granularity only: inside the manager's own methods such calls are not atomic with respect to a termination, which the property does not quantify over).

Fourth round (d) - 3 of 18 missed at first:

* **C08-d** (a callable `auth` is resolved once in connect() and the value stored, so reconnections send the stale payload): C08's check runs clients with reconnection disabled; reconnection parameters are C10's subject, whose callable returned a constant. It now returns a fresh value per evaluation and C10 requires that a later connection never repeats an earlier connection's value (`tools/seeded.py run C08-d --check C10`).
* **C14-d** (AsyncClient keeps pending callbacks across a transport loss when it is going to reconnect, Client drops them): no sub-scenario of the differential check had a *wire-level* server together with automatic reconnection. New sub-scenario `checks/c14x.py`: scripted server, emits with callbacks, call(), server events, ACKs (right, repeated, from an earlier connection, never issued), transport losses with automatic reconnection.
* **C15-d** (a non-reentrant lock around ack-id generation and around the application callback in the threaded PubSubManager): needed an application callback that emits with another callback from inside the listener (`chained_cb`), and a `threading` shim so that locks created by the code under test block through the simulator's kernel - the deadlock then shows as a listener that stops, not as a hung simulator.

While writing C12-d the sub-agent remarked that an event literally named `'*'` reaches a catch-all handler without the event name prepended on the *unchanged* tree; C13 was extended with that event name, reproduced it, and it was repaired (fix 9495251). Extending C04 to the msgpack serializer and the namespace name `'*'` then found the analogous defect for namespaces (fix d2beb05).

Fifth round (e) - the sub-agents were asked for changes in ONE of the two implementations only (the asyncio one, depending on asyncio specifics; C14 and C20: the threaded one). 13 of 18 missed at first:

* **Several packets handled back to back (C02-e, C05-e, C12-e, C18-e).** On the websocket transport engine.io reads every frame in a loop iteration of its own, so a handler task created for one frame always starts before the next frame is looked at. In ONE polling payload (an HTTP POST, which engine.io accepts for any live session) the packets are handled without returning to the event loop. Wire peers can now post such payloads (`post_pkts`); C05 sends events followed by the client's own DISCONNECT, C12 lets the offender do it, C02 got a wire-level second sender plus handlers of both kinds (plain and coroutine) side by side, C18 application handlers that emit to / leave / enter a room, with `async_handlers` on.
* **C03-e** (binary emit re-reads the participants for every part): emits now carry bytes in a third of the cases, sends suspend (FIFO per transport), and every peer's stream must be well formed (no header without its attachments, no stray attachment) - a recipient set alone does not see half a packet.
* **C06-e** (ack id retired after a coroutine callback returns): coroutine callbacks suspend and the same ACK arrives again on a second channel (a POST) while the first is suspended.
* **C07-e** (publish first, local delivery in a task): one application task emits and changes the membership right after (`emit_then`).
* **C08-e** (namespace snapshot written back after the disconnect handlers): the client's disconnect handlers suspend for a seeded time.
* **C10-e** (abort flag cleared before every wait): shutdown() is now also issued while the attempt that follows a back-off is in flight. This exposed a defect of the unchanged AsyncClient (fix 988e2ca).
* **C11-e** (mark after the DISCONNECT send): the end `sdisc_race_sever` - server disconnect() racing the transport loss - with suspending sends.
* **C13-e** (iscoroutinefunction() result cached per namespace and event): after the first event a handler of the other kind is registered for the same namespace and event and the event is sent again.
* **C15-e** (CancelledError guard only for coroutine functions): a plain callable returning a coroutine that ends cancelled; and the harness now injects the relayed acknowledgement for the application callback's own id (it used the forwarding entry's id, under which the failing callback ran nested inside a guarded call).
* **C19-e** (input_event.clear() moved behind the reconnection wait): the server greets every (re)connected client with an event right behind the CONNECT reply, receive() is aimed at the reconnection window, and the new clause `event_held_back`: in virtual time a receive() returns an event at the instant it is available, not when something else wakes it. The aimed receive() also exposed a defect of the unchanged SimpleClient (fix db7d673).

Sixth round (f) - changes in the THREADED implementation only that depend on threads (C14: asyncio only, purely sequential). 12 of 18 missed at first; 9 of those are detected after strengthening, 3 are outside what their property quantifies over (marked "not claimed" in the table):

* **C02-f / C06-f** (threaded Manager.trigger_callback: table dropped / id retired after the callback returns): C06 got callbacks that emit with another callback (chained), slow plain callbacks in the thread world, and the repeated ACK on a second channel while the first callback runs. C02-f is a change to `Manager.trigger_callback` and is reported by C06 (`--check C06`).
* **C03-f / C07-f** (Manager.emit iterates the live room): C03's raced emit + membership change now also runs in the thread world under the random / PCT schedules (two application threads); C07-f is the same function and is reported by C03 (`--check C03`). With bytes in the payload the same race interleaves the frames of the binary packet with the other thread's frames - the defect already recorded under C05 - so raced emits in the thread world carry no bytes.
* **C08-f** (connect(wait=True): comparison before clear(), flag trusted after the loop): C08's thread world now runs under free schedules too (binary frames are fed one at a time: the client's per-message handler threads start in order in reality).
* **C09-f** (threaded Client._handle_ack removes the id after the callback): slow plain callbacks in the thread world with the repeated ACK in flight.
* **C10-f** (connect() clears the abort event): shutdown() gets to run between the end of the back-off wait and the attempt proper.
* **C14-f** (AsyncServer.disconnect() sends DISCONNECT after the handler): C04's disconnect handler optionally tells the namespace that the client left; the differential check compares the order at the departing peer.
* **C15-f** (RedisManager subscribes once in initialize()): the fake broker can fail only the publishing connection (`publish_hiccup`), so the manager replaces its pubsub object while the listener's connection lives on; a junk message then restarts the listener on the unsubscribed object.
* **C04-f, C12-f, C13-f**: thread races their properties do not quantify over (see the table). C20 is the property about thread schedules; it explores terminating actions on accepted sessions at manager-access (and, in part, source-line) granularity.

Seventh round (g) - changes that bite only through a rarely used argument, alias or configuration. 9 of 18 missed at first:

* **C04-g / C20-g** (`disconnect(..., ignore_queue=True)` looks the client up without consulting the pending mark): a third of the server-side disconnects in C04 and C20 now use the local-only form.
* **C06-g / C14-g** (message-queue manager registers the callback before the `ignore_queue` short-cut): C06 runs 30 % of its histories on a message-queue manager (one host on the simulated bus) with `ignore_queue=True` on half of the emits / calls, and sends ACKs bearing the id just below an outstanding one. (On the unchanged tree that id is *not* unknown for a queue-routed emit - the manager keeps the application's callback under it, next to the forwarding entry whose id is on the wire; such ACKs are skipped there, see DESIGN B.2.) The differential check places the `ignore_queue` decisions by content.
* **C08-g** (default namespace list built from both handler tables without de-duplication): clients with function handlers AND a class-based namespace for the same namespace.
* **C13-g** (events forwarded to a class-based namespace only if it has an `on_<event>` attribute): class-based namespaces that override `trigger_event()` instead.
* **C15-g** (bytes are no longer tried as JSON): a valid JSON message handed over as bytes must be applied.
* **C18-g** (the instrumented emit wrapper drops `ignore_queue`): C18 runs a quarter of its histories on a message-queue manager with a second, plain host whose client sees what goes through the queue; half of the emits are local-only.
* **C19-g** (`__disconnect_final` registered for `/`): the simple client connects to `/chat` in a third of the runs.

Eighth round (h) - changes whose breakage needs a repeated or later occurrence (state not reset, or reset too eagerly, between occurrences). 4 of 18 missed at first:

* **C07-h** (issuing host drops older callbacks of a remote client when a later one is acknowledged): ACKs are now sent for any outstanding callback, not the oldest first.
* **C10-h** (a sticky "disconnect requested" flag): the client object now has a history before the connection that is lost - a disconnect() while idle, or a full connect / disconnect cycle.
* **C13-h** (handler resolution memoised, invalidated only for the key being registered): after the first event a function handler of higher precedence is registered under a different key and the event is sent again.
* **C20-h** (pending-disconnect list created with the namespace but deleted when it empties): the namespace has already seen another client come and be disconnected before the concurrent terminations start.

Ninth round (i) - changes that bite only when something fails at the transport boundary (a send that finds the peer gone, a loss in the middle of a multi-step exchange, engine.io tearing a connection down re-entrantly inside a send). 10 of 18 missed at first; 8 reported after strengthening, 2 not claimed:

* **C02-i** (a half-received binary packet survives an *automatic* reconnection): the clause is C08's ("no ... half-received binary packet survives into the next connection"); C08 has a new scenario with a reconnecting client (losses in mid-packet, with callbacks outstanding; after each automatic reconnection the namespace list, the connect / disconnect handler counts, stale ACKs and a probe event with bytes on every namespace are checked). Reported by C08.
* **C06-i** (disconnect() returns early when the transport died inside its send): C06 now kicks a silent client after its ping has expired with an ACK of that client in flight (before or after the kick); a callback that runs after disconnect() has returned is reported. (C04, C11 and C20 report the same change by its other effects.)
* **C08-i** (connect() no longer resets the namespace list): the server's answer to a CONNECT and the loss of the transport reach the client in the same instant (new net hook: a loss placed right behind a given frame), under free thread schedules; the next connection must not show the old session id. This found two defects of the unchanged tree - one repaired (a428cdc), one a known finding (see DESIGN B.3).
* **C10-i** (namespace list reset only when `connected`): a new outcome for a reconnection attempt - the transport is lost while the application's connect handler is still running - which is a failed attempt like any other.
* **C13-i** (KeyError from a class-based handler read as "no namespace here"): the chosen target raises (KeyError, LookupError, AttributeError, TypeError, ValueError): nothing else may run.
* **C16-i** (a shared stand-in session for clients whose transport has gone): late writes (save_session / session() block) and reads under session ids that have ended; a read that returns another client's data, or anything at all, is reported.
* **C18-i** (byte counting in the instrumented websocket wrapper fails on a closed websocket): new wire peers on the long-polling transport (sim/poll.py) that start a websocket upgrade and abandon it before or after the probe; the twin comparison shows the instrumented server's client stuck behind NOOPs.
* **C19-i** (emit()/call() give up when `client.connected` is false): a reconnection that takes several attempts (nothing answers for 3 s) with a call() waiting for its answer when the connection goes, and a pre-emption point between the connected-wait and what follows it.
* **C07-i, C14-i** need engine.io's `send()` to raise; the engine.io that runs for real in the simulation (and in deployments with this pin) never does on asyncio - not claimed (see the table).

Tenth round (j) - cross-talk / wrong-key changes that need several parties at once (state keyed too coarsely, shared between instances, looked up under the wrong key); with one client on one namespace everything looks perfect. 11 of 18 missed at first, all reported after strengthening:

* **C02-j / C09-j** (a server DISCONNECT of one namespace clears the client's whole callback table): C09's scripted server ends ONE of the client's namespaces in mid-history; C02 connects the client to a spare namespace nothing is sent on and has the server end it while messages and their acknowledgements are in flight on the others.
* **C04-j** (a server-wide "connect handlers take auth" flag): the served namespaces' connect handlers now differ in their declared arity within one run (`(sid, environ, auth)` for one, `(sid, environ)` for the next).
* **C06-j** (callbacks popped under every *room name* the departing client was in): "follow" rooms - a client enters the room named after another client's session id and then goes away while that client has acknowledgements outstanding.
* **C08-j** (pending callbacks released per namespace, only while `connected`): the application's connect handler emits with a callback at once; after a partially refused `connect(wait=True)` the stale ACK must fire nothing on the next connection.
* **C10-j** (the reconnect guard asks whether *any* client is reconnecting): a second client object in the same process, on its own namespace, loses its transport a moment after the first.
* **C11-j** (`pending_disconnect.pop(0)`): "the host leaves, kick the guests" - a client's disconnect handler disconnects another client of the namespace (nested terminations).
* **C13-j** (catch-all resolution memoised per event name): after the lifecycle the same registry serves two namespaces at once and the same event name arrives on both (client and server).
* **C15-j** (`host_id` as a class attribute): an emit published by the *other* host must be applied, not taken for an own echo (also reported by C07).
* **C19-j** (a class-level `input_buffer`): two more simple clients in the same process, each sent its own events.
* **C20-j** (the pending mark checked per namespace, not per client): the other client of the namespace is in the middle of being disconnected (its handler takes a while) when the concurrent terminations start. (Disconnecting two *different* clients concurrently raises `KeyError` in `basic_disconnect` on the unchanged tree - thread-unsafety between clients, outside C20's quantifier; observed, not claimed.)

Eleventh round (k) - re-entrancy: the breakage shows only when the application calls back into the library from inside one of its own handlers or callbacks. 13 of 18 missed at first - the generated handlers had been passive (return, raise, pause) almost everywhere - all reported after strengthening:

* **C02-k** (the client drops the callbacks a connect handler registered): the client's connect handler emits with a callback at once; the server's answer must reach it.
* **C03-k** (rooms to leave recorded before the disconnect handler runs): the application's own handlers use the rooms - the connect handler enters 'lobby', the disconnect handler "moves" the client into another room on its way out.
* **C04-k / C20-k** (the pending-disconnect list is rebuilt without its head): a disconnect handler that disconnects another client of the namespace ("the host leaves, kick the guests") while a second cause ends the host: in C04's races (asyncio, coroutine handlers) and, in C20, with the bystander as the guest.
* **C07-k** (a message-queue manager drops a disconnect request while any local disconnect is in progress): a disconnect handler disconnects a client that lives on another host.
* **C08-k / C10-k** (client state cleared before instead of after the disconnect handlers): disconnect handlers that emit - with a callback (C08: nothing may survive into the next connection) or without (C10: the reconnection must still start).
* **C11-k** (clean-up skipped when the personal room is gone): the application's "leave every room rooms() lists" tidy-up, which includes the client's own room.
* **C12-k** (callback entry removed after the callback has run): an emit with a callback to the offender whose callback relays the answer to a bystander and takes a moment; the offender replays its ACK on a second channel (python-socketio has engine.io deliver one client's messages one after the other, so only an HTTP POST to the session is handled concurrently).
* **C13-k** (resolved route cached and written back after the handler): a catch-all that registers the real handler from inside itself the first time it sees an event.
* **C15-k** (a non-re-entrant lock around the listener's emit and disconnect handling): a remotely requested disconnect whose handler broadcasts "user left" from inside the listener.
* **C16-k** (the transport's sessions cleared after the first namespace's handler): the disconnect handlers read the session of the client that is leaving.
* **C19-k** (connect() creates fresh event objects): the application's consumer is started before connect() is called on the same object.

Twelfth round (l) - the aftermath of a failed, refused or timed-out operation: the failing operation itself behaves as before, what it leaves behind (or the next normal operation) is wrong. 7 of 18 missed at first, all reported after strengthening:

* **C02-l** (a client call() that times out releases the namespace's whole callback table, counter included): at the end of a run, a call() with a 0.05 s timeout to a handler that takes 0.2 s, then a normal call() while the late answer is on its way - in both directions (the server-side twin, C06-l, is reported by the same phase). Also reported by C09 (`id_not_unique`).
* **C07-l** (a failed publish of an emit with a callback wipes the client's callback table): the simulated bus can fail one publish of one host; an emit with a callback to a remote client whose publish fails must leave what was outstanding before, and what is issued afterwards, alone.
* **C10-l** (a refused second connect() overwrites the remembered connection parameters): while connected the application calls connect() again with another URL, headers, auth, transports and namespaces and is told "Already connected".
* **C13-l** (a negative routing cache that register_namespace() does not clear): an event without any target is dropped, then a class-based namespace (for the namespace or '*') that handles it is registered and the event arrives again.
* **C15-l** (the decoded value of the previous message is kept after a failure outside the per-message try): a value that is not a message at all, directly followed by a valid message from a publisher that writes JSON text.
* **C16-l** (a refused connect clears the transport's whole session dict): a further namespace is requested and refused (False / ConnectionRefusedError); the client's sessions on its other namespaces are read afterwards.
* **C18-l** (the instrumentation drops its bookkeeping on any exception from a connect handler): an application connect handler that fails with something other than a refusal, after which that client goes away.

Thirteenth round (m) - breakage that depends on a particular value or shape of application data or names (falsy values, empty containers, names with unusual characters). 8 of 18 missed at first, all reported after strengthening:

* **C04-m / C11-m** (sessions are not removed from rooms with a falsy name when they end): the application puts accepted sessions into a room named 0, '' or 0.0 (C04: `rooms()` of an ended session must be empty; C11: room names incl. 0, '' and 0.0). (C03's domain excludes falsy room names - a falsy `to` means broadcast - so they are not used there.)
* **C08-m** (a falsy CONNECT_ERROR payload is dropped): refusals now carry any JSON value ('', {}, false, a string, a list, nothing) and the connect_error handler's arguments are checked. (A bare number is not used: `4/a,0` reads as an ack id on the wire.)
* **C09-m** (an event literally named '*' treated as registered, on the client): '*' is one of the event names the scripted server sends; the reference registry resolves it as an ordinary name without a handler of its own. Also reported by C13.
* **C12-m** (a placeholder that refers to no attachment is passed through to the handler): a complete binary event with an out-of-range or non-integer placeholder index must not reach a handler.
* **C16-m** (`save_session()` ignores a falsy session): the session is replaced by an empty one ("logout") and read again.
* **C18-m** (the instrumented emit wrapper collapses falsy payloads): application emits carry 0, '', [], {}, False and b'' as well.
* **C19-m** (the simple client strips a trailing slash from its namespace): namespaces '/chat/' and '/a/b/'; a failed initial connect() to a server that accepts the namespace is now a violation, not a harness fault.

Fourteenth round (n) - two cooperating code sites that each look like an innocent refactoring (a helper whose contract changes while one caller is not adapted, a cleanup moved to a method one path does not reach, sync and asyncio variants changed consistently except in one place). 17 changes (all claimed properties but C14, whose differential check is made of the others); 1 of 17 missed at first, reported after strengthening; the other 16 were reported as the checks stood, each by more than a hundred runs of the quick tier:

* **C07-n** (an acknowledgement with a single argument travels unwrapped over the channel and is re-wrapped on arrival, so a single *list* argument comes out as several): relayed ack payloads now include a single list, a single empty list, a single dict and a nested list followed by a second argument.
"""


def main():
    rows = []
    for mpath in sorted(glob.glob(os.path.join(ROOT, 'seeded', '*',
                                               'meta.json'))):
        name = os.path.basename(os.path.dirname(mpath))
        m = json.load(open(mpath))
        det = []
        for k, v in sorted(m.get('checks', {}).items()):
            if v['exit'] == 1:
                cl = (v['clauses'] or ['?'])[0].replace('clause: ', '')
                det.append('%s (%s)' % (k, cl))
        rows.append('| %s | %s | %s | %s | %s | %s |' % (
            name, m['property'],
            m['summary'].replace('|', '\\|').replace('\n', ' ')[:400],
            m.get('needs', '').replace('|', '\\|').replace('\n', ' ')[:300],
            'yes' if m.get('confirmed') else 'NO',
            '; '.join(det) or ('NOT DETECTED - ' + m['not_claimed']
                               if m.get('not_claimed') else 'NOT DETECTED')))
    out = [
        '# Changes written by independent sub-agents (given only the '
        'property text and a scratch worktree)',
        '',
        'Each change compiles, passes the pinned suite (579 tests without '
        'the network-bound admin files), and has a demonstration '
        '(`demo.py`) that prints PROPERTY HOLDS on the unchanged tree and '
        'PROPERTY VIOLATED with the change; all of that was re-confirmed by '
        '`tools/seeded.py import` on scratch worktrees (column '
        '"confirmed").  "detected by" lists the checks that exit 1 with '
        'the change applied (`tools/seeded.py run`; quick tier unless '
        'noted), with the first violated clause.',
        '',
        '| change | property | what it does | needs | confirmed | '
        'detected by |',
        '|---|---|---|---|---|---|',
    ] + rows + [NOTES]
    with open(os.path.join(ROOT, 'seeded', 'RESULTS.md'), 'w') as f:
        f.write('\n'.join(out))
    print('%d changes, %d detected, %d outside the property\'s quantifier'
          % (len(rows), sum('NOT DETECTED' not in r for r in rows),
             sum('NOT DETECTED - not claimed' in r for r in rows)))


if __name__ == '__main__':
    main()
