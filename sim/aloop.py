"""SimLoop: an asyncio event loop with a virtual clock and no I/O.

Ready callbacks run FIFO exactly as asyncio documents, timers in (when, seq)
order; when nothing is ready the clock jumps to the next timer.  The loop makes
no random choice of its own: interleaving freedom enters through the seeded
durations of simulated I/O and handler pauses (DESIGN 2.2).
"""
import asyncio
import sys
import asyncio.base_events
import heapq

EPOCH = 1_700_000_000.0


class LoopStepLimit(Exception):
    pass


class SimTimerHandle(asyncio.TimerHandle):
    """Timers due at the same instant fire in creation order (asyncio leaves
    ties to the heap)."""
    __slots__ = ('_seq',)

    def __lt__(self, other):
        return (self._when, self._seq) < (other._when, other._seq)

    def __le__(self, other):
        return (self._when, self._seq) <= (other._when, other._seq)

    def __gt__(self, other):
        return (self._when, self._seq) > (other._when, other._seq)

    def __ge__(self, other):
        return (self._when, self._seq) >= (other._when, other._seq)


class _NoSelector:
    def close(self):
        pass


class SimLoop(asyncio.base_events.BaseEventLoop):
    def __init__(self):
        super().__init__()
        self._vt = EPOCH
        self._clock_resolution = 1e-6
        self._selector = _NoSelector()
        self.steps = 0
        self._timer_seq = 0
        self.exc_log = []
        self.set_exception_handler(self._on_exception)
        # wake-ups requested by non-loop code (not used: single thread)

    # -- clock -----------------------------------------------------------
    def time(self):
        return self._vt

    def call_at(self, when, callback, *args, context=None):
        if when is None:
            raise TypeError('when cannot be None')
        self._check_closed()
        timer = SimTimerHandle(when, callback, args, self, context)
        self._timer_seq += 1
        timer._seq = self._timer_seq
        heapq.heappush(self._scheduled, timer)
        timer._scheduled = True
        return timer

    # -- the parts BaseEventLoop leaves abstract -------------------------------
    def _process_events(self, event_list):
        pass

    def _write_to_self(self):
        pass

    def _on_exception(self, loop, context):
        # "Task exception was never retrieved" and friends: recorded, never
        # printed; checks decide what they mean.
        exc = context.get('exception')
        self.exc_log.append((context.get('message'), repr(exc)))

    # -- stepping --------------------------------------------------------
    def _next_timer(self):
        sched = self._scheduled
        while sched and sched[0]._cancelled:
            h = heapq.heappop(sched)
            h._scheduled = False
            self._timer_cancelled_count = max(
                0, self._timer_cancelled_count - 1)
        return sched[0]._when if sched else None

    def _step(self):
        """One iteration: run what is ready (moving due timers first)."""
        self.steps += 1
        end = self._vt + self._clock_resolution
        sched = self._scheduled
        while sched:
            h = sched[0]
            if h._cancelled:
                heapq.heappop(sched)
                h._scheduled = False
                self._timer_cancelled_count = max(
                    0, self._timer_cancelled_count - 1)
                continue
            if h._when >= end:
                break
            heapq.heappop(sched)
            h._scheduled = False
            self._ready.append(h)
        n = len(self._ready)
        for _ in range(n):
            h = self._ready.popleft()
            if h._cancelled:
                continue
            h._run()
        h = None

    def run_idle(self, horizon=0.5, max_steps=200000, deadline=None):
        """Run until nothing is ready and no timer is due within `horizon`
        virtual seconds of the moment the ready queue drained (or, with
        `deadline`, until the clock reaches it).  Returns True if idle was
        reached, raises LoopStepLimit when the step cap is hit."""
        self._check_closed()
        self._check_running()
        self._thread_id = 1  # any non-None marker; call_soon_threadsafe unused
        import threading
        self._thread_id = threading.get_ident()
        old = asyncio.events._get_running_loop()
        asyncio.events._set_running_loop(self)
        # as run_forever() does: abandoned async generators are closed by a
        # task of this loop (their cleanup code runs later, asynchronously)
        old_agen = sys.get_asyncgen_hooks()
        sys.set_asyncgen_hooks(firstiter=self._asyncgen_firstiter_hook,
                               finalizer=self._asyncgen_finalizer_hook)
        try:
            steps = 0
            quiet_since = None
            while True:
                if self._ready:
                    quiet_since = None
                    self._step()
                else:
                    if quiet_since is None:
                        quiet_since = self._vt
                    nt = self._next_timer()
                    limit = deadline if deadline is not None \
                        else quiet_since + horizon
                    if nt is None or nt > limit:
                        if deadline is not None and self._vt < deadline:
                            self._vt = deadline
                        return True
                    if nt > self._vt:
                        self._vt = nt
                    self._step()
                steps += 1
                if steps > max_steps:
                    raise LoopStepLimit('step cap %d' % max_steps)
        finally:
            self._thread_id = None
            asyncio.events._set_running_loop(old)
            sys.set_asyncgen_hooks(*old_agen)

    def advance(self, dt, max_steps=200000):
        """Run for dt virtual seconds."""
        return self.run_idle(deadline=self._vt + dt, max_steps=max_steps)

    def pending_timers(self):
        return sum(1 for h in self._scheduled if not h._cancelled)

    def shutdown_sim(self):
        """Cancel every task and drop timers so the loop can be closed."""
        try:
            tasks = [t for t in asyncio.all_tasks(self) if not t.done()]
        except RuntimeError:
            tasks = []
        for t in tasks:
            t.cancel()
        try:
            for _ in range(50):
                if not self._ready:
                    break
                self.run_idle(horizon=0.0, max_steps=10000)
        except Exception:
            pass
        self._scheduled.clear()
        self._ready.clear()
        try:
            self.close()
        except Exception:
            pass
