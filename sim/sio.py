"""The harness's own reading of the Socket.IO v5 wire format (and of the
msgpack variant).  Used by wire peers and scripted servers to build frames and
by the Recorder to decode what the code under test sent, so that the tap does
not depend on the code under test."""
import json

CONNECT, DISCONNECT, EVENT, ACK, CONNECT_ERROR, BINARY_EVENT, BINARY_ACK = \
    range(7)
NAMES = ['CONNECT', 'DISCONNECT', 'EVENT', 'ACK', 'CONNECT_ERROR',
         'BINARY_EVENT', 'BINARY_ACK']


class Pkt:
    __slots__ = ('type', 'nsp', 'id', 'data', 'natt')

    def __init__(self, type, nsp='/', id=None, data=None, natt=0):
        self.type = type
        self.nsp = nsp or '/'
        self.id = id
        self.data = data
        self.natt = natt

    @property
    def base(self):
        """Type with BINARY_EVENT/BINARY_ACK folded onto EVENT/ACK."""
        return {BINARY_EVENT: EVENT, BINARY_ACK: ACK}.get(self.type, self.type)

    def key(self):
        return (NAMES[self.type] if isinstance(self.type, int) and
                0 <= self.type < 7 else self.type,
                self.nsp, self.id, self.data)

    def __repr__(self):
        return 'Pkt%r' % (self.key(),)


def _strip(data, atts):
    if isinstance(data, (bytes, bytearray)):
        atts.append(bytes(data))
        return {'_placeholder': True, 'num': len(atts) - 1}
    if isinstance(data, (list, tuple)):
        return [_strip(x, atts) for x in data]
    if isinstance(data, dict):
        return {k: _strip(v, atts) for k, v in data.items()}
    return data


def _fill(data, atts):
    if isinstance(data, list):
        return [_fill(x, atts) for x in data]
    if isinstance(data, dict):
        if data.get('_placeholder') is True and isinstance(
                data.get('num'), int) and len(data) == 2:
            return atts[data['num']]
        return {k: _fill(v, atts) for k, v in data.items()}
    return data


def encode(type, nsp='/', id=None, data=None):
    """Return the list of frames (first a str, then bytes attachments)."""
    atts = []
    body = _strip(data, atts) if data is not None else None
    if atts:
        if type == EVENT:
            type = BINARY_EVENT
        elif type == ACK:
            type = BINARY_ACK
    s = str(type)
    if type in (BINARY_EVENT, BINARY_ACK):
        s += '%d-' % len(atts)
    if nsp and nsp != '/':
        s += nsp + ','
    if id is not None:
        s += str(id)
    if body is not None:
        s += json.dumps(body, separators=(',', ':'), ensure_ascii=False)
    return [s] + atts


def decode_header(s):
    """Decode a text frame; returns Pkt with natt = number of attachments
    still expected.  Raises ValueError on anything not well formed."""
    if not isinstance(s, str) or not s:
        raise ValueError('not a text frame')
    if s[0] not in '0123456':
        raise ValueError('bad type')
    t = int(s[0])
    i = 1
    natt = 0
    if t in (BINARY_EVENT, BINARY_ACK):
        j = i
        while j < len(s) and s[j] in '0123456789':
            j += 1
        if j == i or j >= len(s) or s[j] != '-':
            raise ValueError('bad attachment count')
        natt = int(s[i:j])
        i = j + 1
    nsp = '/'
    if i < len(s) and s[i] == '/':
        j = s.find(',', i)
        if j == -1:
            nsp = s[i:]
            i = len(s)
        else:
            nsp = s[i:j]
            i = j + 1
        q = nsp.find('?')
        if q != -1:
            nsp = nsp[:q]
    id = None
    j = i
    while j < len(s) and s[j] in '0123456789':
        j += 1
    if j > i:
        id = int(s[i:j])
        i = j
    data = None
    if i < len(s):
        data = json.loads(s[i:])
    return Pkt(t, nsp, id, data, natt)


class Assembler:
    """Re-assembles the logical packets of one direction of one connection
    from its engine.io MESSAGE payloads (str = text frame, bytes =
    attachment)."""

    def __init__(self, msgpack=False):
        self.msgpack = msgpack
        self.pending = None
        self.atts = []
        self.errors = []     # binary headers whose attachments never came

    def feed(self, frame):
        """Return a Pkt when one is complete, else None.  Undecodable input
        comes back as a Pkt of type 'garbage'."""
        if self.msgpack:
            import msgpack
            try:
                d = msgpack.loads(frame)
                return Pkt(d['type'], d.get('nsp'), d.get('id'), d.get('data'))
            except Exception as e:   # noqa
                return Pkt('garbage', '/', None, repr(frame)[:80])
        if isinstance(frame, (bytes, bytearray)):
            if self.pending is None:
                return Pkt('stray-binary', '/', None, bytes(frame))
            self.atts.append(bytes(frame))
            if len(self.atts) == self.pending.natt:
                p = self.pending
                self.pending = None
                try:
                    p.data = _fill(p.data, self.atts)
                except Exception:
                    p = Pkt('garbage', '/', None, 'bad placeholder')
                self.atts = []
                return p
            return None
        if self.pending is not None:
            # a text frame while attachments are still due: the packet
            # announced before can never be completed
            self.errors.append(('incomplete', self.pending.key(),
                                len(self.atts)))
            self.pending = None
            self.atts = []
        try:
            p = decode_header(frame)
        except Exception:
            return Pkt('garbage', '/', None, frame[:80])
        if p.natt:
            self.pending = p
            self.atts = []
            return None
        return p


def encode_msgpack(type, nsp='/', id=None, data=None):
    import msgpack
    d = {'type': type, 'data': data, 'nsp': nsp or '/'}
    if id is not None:
        d['id'] = id
    return [msgpack.dumps(d)]
