"""Recorder: the run's history.  Every entry gets the global sequence number
and the virtual time.  Nothing here draws a choice or reads a real clock."""
import logging

from .util import Digest


import re as _re
_ADDR = _re.compile(r" at 0x[0-9a-fA-F]+")


class Recorder:
    def __init__(self, clock):
        self.clock = clock
        self.events = []
        self.seq = 0
        self.digest = Digest()
        self.errors = []       # ERROR-level log records (engine.io containment)
        self.counters = {}

    def add(self, kind, **kw):
        self.seq += 1
        ev = {'seq': self.seq, 't': round(self.clock() - 1_700_000_000.0, 6),
              'kind': kind}
        ev.update(kw)
        self.events.append(ev)
        self.digest.add(kind, ev['t'], sorted(
            (k, _short(v)) for k, v in kw.items()))
        return ev

    def count(self, name, n=1):
        self.counters[name] = self.counters.get(name, 0) + n

    def dump_log(self):
        import os
        if not os.environ.get('VERIF_LOG'):
            return []
        return [repr(e) for e in self.events]

    def of(self, kind, **match):
        out = []
        for e in self.events:
            if e['kind'] != kind:
                continue
            if all(e.get(k) == v for k, v in match.items()):
                out.append(e)
        return out


def _short(v):
    # what goes into the digest: no memory addresses (default object reprs)
    r = _ADDR.sub(' at 0x?', repr(v))
    return r if len(r) < 400 else r[:400]


class _RecHandler(logging.Handler):
    def __init__(self, rec, who):
        super().__init__(level=logging.WARNING)
        self.rec = rec
        self.who = who

    def emit(self, record):
        try:
            msg = record.getMessage()
        except Exception:
            msg = str(record.msg)
        msg = _ADDR.sub(' at 0x?', msg)
        exc = None
        site = None
        if record.exc_info and record.exc_info[1] is not None:
            e = record.exc_info[1]
            # (object reprs carry memory addresses: not part of the history)
            exc = _ADDR.sub(' at 0x?', '%s: %s' % (type(e).__name__, e))
            try:
                import traceback
                tb = traceback.extract_tb(e.__traceback__)
                site = tb[-1].name if tb else None
            except Exception:
                site = None
        if record.levelno >= logging.ERROR:
            ev = self.rec.add('log_error', who=self.who, msg=msg, exc=exc,
                              site=site)
            self.rec.errors.append(ev)
        else:
            self.rec.add('log_warning', who=self.who, msg=msg)


_counter = [0]


def make_logger(rec, who):
    """A fresh, non-propagating logger whose WARNING+ records go to the
    recorder.  INFO is filtered by level, so the code under test pays almost
    nothing for its logging calls."""
    _counter[0] += 1
    lg = logging.Logger('sim.%s.%d' % (who, _counter[0]), level=logging.WARNING)
    lg.propagate = False
    lg.addHandler(_RecHandler(rec, who))
    return lg
