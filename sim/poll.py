"""Wire peers on engine.io's long-polling transport (both worlds).

A polling peer opens the session with a GET, keeps one GET pending (the
server answers it when it has packets, in one payload), and sends with POSTs
- one at a time and in order, like a real client.  It can start a websocket
upgrade and abandon it (the websocket goes away before or after the probe),
after which it carries on polling.
"""
import asyncio
import base64

from . import sio
from .net import CLOSED


class _PollConn:
    """What the bookkeeping of the checks looks at on a peer's transport."""

    def __init__(self):
        self.severed = False
        self.told = {'client': False, 'server': False}
        self.last = {'c2s': 0.0, 's2c': 0.0}
        self.cid = -1

    def sever(self, tell_server=0.0, tell_client=0.0):
        self.severed = True


class PollBase:
    transport = 'polling'
    NOOP_PAUSE = 0.05      # before polling again after a NOOP-only answer

    def _begin(self):
        self.conn = _PollConn()
        self.transport_closed = False
        self.eio_closed = False
        self.eio_sid = None
        self.asm = sio.Assembler(msgpack=self.world.msgpack)
        self.paused = False
        self.polls = 0
        self.noop_pause = 0.0

    def _get_environ(self):
        q = 'transport=polling&EIO=4'
        if self.eio_sid:
            q += '&sid=%s' % self.eio_sid
        return {'REQUEST_METHOD': 'GET', 'PATH_INFO': '/socket.io/',
                'QUERY_STRING': q, 'SERVER_NAME': 'sim'}

    def _body_of(self, raw):
        if isinstance(raw, (bytes, bytearray)):
            return ('b' + base64.b64encode(bytes(raw)).decode('ascii')
                    ).encode('utf-8')
        return raw.encode('utf-8')

    def _answer(self, status, payload):
        """-> True when the answer held nothing but NOOPs."""
        self.polls += 1
        if not str(status).startswith('200'):
            self.world.rec.add('poll_refused', peer=self.idx,
                               status=str(status))
            self._on_raw(CLOSED)
            return False
        if isinstance(payload, (list, tuple)):
            payload = b''.join(payload)
        parts = payload.decode('utf-8').split('\x1e') if payload else []
        for part in parts:
            self._on_raw(part)
        if self.eio_closed and not self.transport_closed:
            self._on_raw(CLOSED)
        if parts and all(p == '6' for p in parts):
            # a client that keeps being told NOOP backs off (and the
            # simulated system reaches quiescence)
            self.noop_pause = min(600.0, (self.noop_pause or
                                          self.NOOP_PAUSE / 2) * 2)
            return True
        self.noop_pause = 0.0
        return False

    def _ws_environ_extra(self):
        return {'QUERY_STRING': 'transport=websocket&EIO=4&sid=%s'
                % self.eio_sid}

    def sever(self, tell_server=0.0):
        # the client vanishes: nothing is polled or posted any more (the
        # server finds out by its ping timeout)
        self.conn.severed = True
        self._stop()

    def close(self):
        """engine.io CLOSE by the client, then no more requests."""
        self._post('1')
        self.conn.told['client'] = True


class APollPeer(PollBase):
    def open(self, extra_env=None):
        self._begin()
        loop = self.world.loop
        self._outq = asyncio.Queue()
        self._poll_task = loop.create_task(self._poll_loop())
        self._post_task = loop.create_task(self._post_loop())
        return self.conn

    def _stop(self):
        for t in (self._poll_task, self._post_task):
            if t is not None and not t.done():
                t.cancel()

    @property
    def _eio(self):
        return self.world.servers[self.server_name].eio

    async def _poll_loop(self):
        while not self.conn.severed and not self.transport_closed:
            if self.paused:
                await asyncio.sleep(0.005)
                continue
            r = await self._eio.handle_request(self._get_environ())
            if self.conn.severed:
                return
            only_noop = self._answer(r[0], r[1])
            lat = self.world.net.latency()
            if only_noop:
                lat = max(lat, self.noop_pause)
            if lat:
                await asyncio.sleep(lat)

    async def _post_loop(self):
        from .world import _AsyncBody
        while True:
            body = await self._outq.get()
            if self.conn.severed:
                return
            lat = self.world.net.latency()
            if lat:
                await asyncio.sleep(lat)
            env = self._post_environ(body, _AsyncBody(body))
            r = await self._eio.handle_request(env)
            self.world.rec.add('post_done', peer=self.idx,
                               status=r[0] if isinstance(r, tuple) else r)

    def _post(self, data):
        if self.conn is None or self.conn.severed or \
                self.conn.told['client'] or self.eio_sid is None:
            return
        self._outq.put_nowait(self._body_of(data))

    def post_payload(self, frames):
        if self.conn is None or self.conn.severed or self.conn.told['client']:
            return
        self.world.rec.count('net.polling_payload')
        self._outq.put_nowait(self._payload_body(frames))

    def upgrade_abort(self, stage='none'):
        """Start a websocket upgrade and abandon it: the websocket goes
        away before the probe ('none') or after the probe was answered
        ('probe')."""
        self.paused = True
        self.world.rec.count('fault.upgrade_abandoned')
        conn = self.world.net.open(self.server_name,
                                   info={'env': self._ws_environ_extra()})
        got = []
        conn.client_sink = got.append
        loop = self.world.loop

        async def go():
            if stage == 'probe':
                conn.post('c2s', '2probe')
                for _ in range(200):
                    if got:
                        break
                    await asyncio.sleep(0.001)
            conn.close('client')
            await asyncio.sleep(0.02)
            self.noop_pause = 0.0     # (that NOOP was the upgrade's)
            self.paused = False
        loop.create_task(go())


class TPollPeer(PollBase):
    def open(self, extra_env=None):
        from .threads import SimQueue
        self._begin()
        k = self.world.kernel
        self._outq = SimQueue(k)
        self._stopped = False
        k.spawn(self._poll_loop, name='poll%d' % self.idx)
        k.spawn(self._post_loop, name='post%d' % self.idx)
        return self.conn

    def _stop(self):
        self._stopped = True
        self._outq.put(None)

    @property
    def _eio(self):
        return self.world.servers[self.server_name].eio

    def _poll_loop(self):
        k = self.world.kernel
        while not self.conn.severed and not self.transport_closed:
            if self.paused:
                k.sleep(0.005)
                continue
            status = []
            r = self._eio.handle_request(
                self._get_environ(), lambda st, headers: status.append(st))
            if self.conn.severed:
                return
            only_noop = self._answer(status[0] if status else '500', r)
            lat = self.world.net.latency()
            if only_noop:
                lat = max(lat, self.noop_pause)
            if lat:
                k.sleep(lat)

    def _post_loop(self):
        from .world import _SyncBody
        k = self.world.kernel
        while True:
            body = self._outq.get()
            if body is None or self.conn.severed:
                return
            lat = self.world.net.latency()
            if lat:
                k.sleep(lat)
            status = []
            self._eio.handle_request(
                self._post_environ(body, _SyncBody(body)),
                lambda st, headers: status.append(st))
            self.world.rec.add('post_done', peer=self.idx, status=status[:1])

    def _post(self, data):
        if self.conn is None or self.conn.severed or \
                self.conn.told['client'] or self.eio_sid is None:
            return
        self._outq.put(self._body_of(data))

    def post_payload(self, frames):
        if self.conn is None or self.conn.severed or self.conn.told['client']:
            return
        self.world.rec.count('net.polling_payload')
        self._outq.put(self._payload_body(frames))

    def upgrade_abort(self, stage='none'):
        self.paused = True
        self.world.rec.count('fault.upgrade_abandoned')
        k = self.world.kernel
        conn = self.world.net.open(self.server_name,
                                   info={'env': self._ws_environ_extra()})
        got = []
        conn.client_sink = got.append

        def go():
            if stage == 'probe':
                conn.post('c2s', '2probe')
                k.block(lambda: bool(got), 0.2, label='probe-answer')
            conn.close('client')
            k.sleep(0.02)
            self.noop_pause = 0.0     # (that NOOP was the upgrade's)
            self.paused = False
        k.spawn(go, name='upgrade%d' % self.idx)
