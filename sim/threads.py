"""SimKernel: real threads, one baton.

Every thread the code under test starts is a real ``threading.Thread`` that
only runs while it holds the baton.  The scheduler (the driver's thread) hands
the baton to one runnable thread, waits until it yields, blocks or ends, and
picks again.  ``block(pred, timeout)`` is the only blocking primitive;
SimEvent, SimQueue, sleep and join are built on it.  Time is virtual: when no
thread is runnable the clock jumps to the earliest deadline or timer.
"""
import heapq
import queue as _queue
import sys
import threading

from .aloop import EPOCH

NEW, RUNNABLE, BLOCKED, DONE = 'new', 'runnable', 'blocked', 'done'


class SimAbort(BaseException):
    """Raised inside every unfinished thread at teardown."""


class KernelStepLimit(Exception):
    pass


class SimThread:
    def __init__(self, kernel, target=None, args=(), kwargs=None, name=None,
                 daemon=True, group=None):
        self.kernel = kernel
        self.target = target
        self.args = args
        self.kwargs = kwargs or {}
        self.tid = len(kernel.threads)
        self.name = name or ('T%d' % self.tid)
        self.daemon = daemon
        self.state = NEW
        self.sem = threading.Semaphore(0)
        self.pred = None
        self.deadline = None
        self.ready_seq = None
        self.prio = 0
        self.exc = None
        self.block_label = None
        self.real = None
        kernel.threads.append(self)

    # threading.Thread API used by the code under test -------------------------
    def start(self):
        k = self.kernel
        if self.state != NEW:
            raise RuntimeError('threads can only be started once')
        self.real = threading.Thread(target=self._boot, daemon=True,
                                     name='sim-' + self.name)
        self.state = RUNNABLE
        k._mark_ready(self)
        k._assign_prio(self)
        self.real.start()
        k.log('spawn', self.tid)
        k.yield_point('spawn')

    def join(self, timeout=None):
        self.kernel.block(lambda: self.state == DONE, timeout,
                          label='join:%d' % self.tid)

    def is_alive(self):
        return self.state in (RUNNABLE, BLOCKED)

    def _boot(self):
        k = self.kernel
        self.sem.acquire()
        try:
            if not k.aborting:
                k._enter_thread(self)
                try:
                    self.target(*self.args, **self.kwargs)
                finally:
                    k._leave_thread(self)
        except SimAbort:
            pass
        except BaseException as e:   # noqa
            self.exc = e
            k.thread_errors.append((self.name, e))
            k.log('thread_exc', self.tid, type(e).__name__)
        finally:
            self.state = DONE
            k.log('end', self.tid)
            k.sched_sem.release()


class SimKernel:
    def __init__(self, choices, policy='fifo', pct_depth=2, pct_span=400):
        self.choices = choices
        self.policy = policy
        self.now = EPOCH
        self.threads = []
        self.cur = None
        self.sched_sem = threading.Semaphore(0)
        self.aborting = False
        self.steps = 0
        self.yields = 0
        self.ready_counter = 0
        self.timers = []
        self.timer_seq = 0
        self.thread_errors = []
        self.trace = None        # optional list receiving scheduling events
        self.sched_log = []      # (step, tid) picks at contended points
        self.contended = 0
        self.trace_files = None
        self._pct_points = []
        if policy == 'pct':
            self._pct_points = sorted(
                choices.draw('sched', pct_span, 'pct_point')
                for _ in range(pct_depth))
        self._pct_low = 0
        # E5: python-engineio is trusted; no pre-emption is injected while
        # the innermost non-simulator frame is engine.io's own code (its
        # threads still interleave with everybody else's at every other
        # point, and whenever they block)
        self.trusted_prefixes = ('engineio',)

    # ---- bookkeeping -----------------------------------------------------
    def log(self, *items):
        if self.trace is not None:
            self.trace.append(items)

    def time(self):
        return self.now

    def _mark_ready(self, t):
        self.ready_counter += 1
        t.ready_seq = self.ready_counter

    def _assign_prio(self, t):
        if self.policy == 'pct':
            t.prio = 1000 + self.choices.draw('sched', 1000, 'prio')

    def _enter_thread(self, t):
        if self.trace_files:
            sys.settrace(self._tracer)

    def _leave_thread(self, t):
        if self.trace_files:
            sys.settrace(None)

    # ---- line-level pre-emption (optional) -------------------------------
    def enable_line_preemption(self, filenames):
        self.trace_files = set(filenames)

    def _tracer(self, frame, event, arg):
        if frame.f_code.co_filename in self.trace_files:
            return self._line_tracer
        return None

    def _line_tracer(self, frame, event, arg):
        if event == 'line' and self.cur is not None and not self.aborting:
            self.yield_point('line')
        return self._line_tracer

    # ---- thread side -----------------------------------------------------
    def spawn(self, target, *args, name=None, **kwargs):
        t = SimThread(self, target=target, args=args, kwargs=kwargs,
                      name=name)
        t.start()
        return t

    def thread_factory(self, target=None, args=(), kwargs=None, name=None,
                       daemon=True, group=None):
        return SimThread(self, target=target, args=args, kwargs=kwargs,
                         name=name, daemon=daemon)

    def _switch_out(self):
        me = self.cur
        self.sched_sem.release()
        me.sem.acquire()
        if self.aborting:
            raise SimAbort()

    def yield_point(self, label=None):
        """A place where the scheduler may run somebody else."""
        me = self.cur
        if me is None:
            return
        if self.aborting:
            raise SimAbort()
        if self.policy == 'fifo':
            return
        if self.trusted_prefixes and self._in_trusted_code():
            return
        self.yields += 1
        me.state = RUNNABLE
        if me.ready_seq is None:
            self._mark_ready(me)
        self._switch_out()

    def _in_trusted_code(self):
        f = sys._getframe(2)
        while f is not None:
            name = f.f_globals.get('__name__', '')
            if not name.startswith('sim.'):
                return name.startswith(self.trusted_prefixes)
            f = f.f_back
        return False

    def block(self, pred, timeout=None, label=None, until=None):
        """`until` is an absolute deadline (exact: no now + (t - now)
        rounding, which at epoch magnitude can land one ulp short of t and
        turn a 'sleep until t' loop into a spin)."""
        me = self.cur
        if me is None:
            # driver context: it must never block
            if pred():
                return True
            raise RuntimeError('driver would block on %s' % label)
        if self.aborting:
            raise SimAbort()
        if self.policy != 'fifo':
            self.yield_point(label)
        deadline = None if timeout is None else self.now + max(0.0, timeout)
        if until is not None:
            deadline = until
        while True:
            if pred():
                return True
            if deadline is not None and self.now >= deadline:
                return False
            me.state = BLOCKED
            me.pred = pred
            me.deadline = deadline
            me.ready_seq = None
            me.block_label = label
            self._switch_out()
            me.pred = None

    def sleep(self, seconds=0):
        if seconds is None:
            seconds = 0
        if seconds <= 0:
            self.yield_point('sleep0')
            return
        self.block(lambda: False, seconds, label='sleep')

    def sleep_until(self, when):
        if when <= self.now:
            self.yield_point('sleep0')
            return
        self.block(lambda: False, label='sleep', until=when)

    # ---- timers (run in scheduler context; must not block) ---------------
    def call_at(self, when, fn, *args):
        self.timer_seq += 1
        h = [when, self.timer_seq, fn, args, False]
        heapq.heappush(self.timers, h)
        return h

    def call_later(self, delay, fn, *args):
        return self.call_at(self.now + max(0.0, delay), fn, *args)

    @staticmethod
    def cancel_timer(h):
        h[4] = True

    # ---- scheduler side --------------------------------------------------
    def _runnable(self):
        out = []
        for t in self.threads:
            if t.state == RUNNABLE:
                out.append(t)
            elif t.state == BLOCKED:
                if (t.deadline is not None and self.now >= t.deadline) or \
                        t.pred():
                    if t.ready_seq is None:
                        self._mark_ready(t)
                    out.append(t)
        return out

    def _pick(self, runnable):
        if len(runnable) == 1:
            return runnable[0]
        self.contended += 1
        if self.policy == 'fifo':
            t = min(runnable, key=lambda t: t.ready_seq)
        elif self.policy == 'random':
            t = runnable[self.choices.draw('sched', len(runnable), 'pick')]
        elif self.policy == 'pct':
            while self._pct_points and self.contended >= self._pct_points[0]:
                self._pct_points.pop(0)
                # demote the thread that would run now
                top = max(runnable, key=lambda t: (t.prio, -t.tid))
                self._pct_low += 1
                top.prio = 100 - self._pct_low
            t = max(runnable, key=lambda t: (t.prio, -t.tid))
        else:
            raise ValueError(self.policy)
        self.sched_log.append(t.tid)
        return t

    def _resume(self, t):
        t.state = RUNNABLE
        self.cur = t
        t.sem.release()
        self.sched_sem.acquire()
        self.cur = None

    def _run_due_timers(self):
        ran = False
        while self.timers and self.timers[0][0] <= self.now:
            h = heapq.heappop(self.timers)
            if h[4]:
                continue
            ran = True
            h[2](*h[3])
        return ran

    def _next_wakeup(self):
        nxt = None
        while self.timers and self.timers[0][4]:
            heapq.heappop(self.timers)
        if self.timers:
            nxt = self.timers[0][0]
        for t in self.threads:
            if t.state == BLOCKED and t.deadline is not None:
                if nxt is None or t.deadline < nxt:
                    nxt = t.deadline
        return nxt

    def run_idle(self, horizon=0.5, max_steps=200000, deadline=None):
        """Run until no thread is runnable and nothing is due within
        `horizon` virtual seconds (or until the clock reaches `deadline`)."""
        assert self.cur is None
        steps = 0
        quiet_since = None
        while True:
            self._run_due_timers()
            runnable = self._runnable()
            if runnable:
                quiet_since = None
                t = self._pick(runnable)
                self.steps += 1
                self.log('run', t.tid)
                self._resume(t)
            else:
                if quiet_since is None:
                    quiet_since = self.now
                nxt = self._next_wakeup()
                limit = deadline if deadline is not None \
                    else quiet_since + horizon
                if nxt is None or nxt > limit:
                    if deadline is not None and self.now < deadline:
                        self.now = deadline
                    return True
                if nxt > self.now:
                    self.now = nxt
            steps += 1
            if steps > max_steps:
                raise KernelStepLimit('step cap %d' % max_steps)

    def advance(self, dt, max_steps=400000):
        return self.run_idle(deadline=self.now + dt, max_steps=max_steps)

    def unfinished(self):
        return [t for t in self.threads if t.state in (RUNNABLE, BLOCKED)]

    def shutdown(self):
        """Unwind every unfinished thread with SimAbort."""
        self.aborting = True
        self.timers = []
        stuck = 0
        for _ in range(200):
            live = [t for t in self.threads
                    if t.state in (RUNNABLE, BLOCKED)]
            if not live:
                break
            for t in live:
                if t.state in (RUNNABLE, BLOCKED):
                    self._resume(t)
        else:
            stuck = len([t for t in self.threads
                         if t.state in (RUNNABLE, BLOCKED)])
        for t in self.threads:
            if t.real is not None and t.state == DONE:
                t.real.join(timeout=1.0)
        return stuck


# --------------------------------------------------------------------------
# primitives
# --------------------------------------------------------------------------
class SimEvent:
    def __init__(self, kernel):
        self.k = kernel
        self.flag = False

    def is_set(self):
        return self.flag

    isSet = is_set

    def set(self):
        self.k.yield_point('ev.set')
        self.flag = True
        # a real thread can lose the processor right after the call too: a
        # waiter may run before the caller's next statement
        self.k.yield_point('ev.set.done')

    def clear(self):
        self.k.yield_point('ev.clear')
        self.flag = False
        self.k.yield_point('ev.clear.done')

    def wait(self, timeout=None):
        self.k.block(lambda: self.flag, timeout, label='ev.wait')
        return self.flag


class SimQueue:
    def __init__(self, kernel, maxsize=0):
        self.k = kernel
        self.items = []
        self.unfinished = 0

    def qsize(self):
        return len(self.items)

    def empty(self):
        return not self.items

    def put(self, item, block=True, timeout=None):
        self.k.yield_point('q.put')
        self.items.append(item)
        self.unfinished += 1

    put_nowait = put

    def get(self, block=True, timeout=None):
        if not block:
            self.k.yield_point('q.get')
            if not self.items:
                raise _queue.Empty()
            return self.items.pop(0)
        ok = self.k.block(lambda: bool(self.items), timeout, label='q.get')
        if not ok or not self.items:
            raise _queue.Empty()
        return self.items.pop(0)

    def get_nowait(self):
        return self.get(block=False)

    def task_done(self):
        if self.unfinished <= 0:
            raise ValueError('task_done() called too many times')
        self.unfinished -= 1

    def join(self):
        self.k.block(lambda: self.unfinished == 0, None, label='q.join')


class SimLock:
    def __init__(self, kernel):
        self.k = kernel
        self.owner = None

    def acquire(self, blocking=True, timeout=-1):
        if not blocking:
            if self.owner is not None:
                return False
        else:
            ok = self.k.block(lambda: self.owner is None,
                              None if timeout is None or timeout < 0
                              else timeout, label='lock')
            if not ok:
                return False
        self.owner = self.k.cur
        return True

    def release(self):
        self.owner = None
        self.k.yield_point('unlock')

    def locked(self):
        return self.owner is not None

    __enter__ = acquire

    def __exit__(self, *a):
        self.release()


class SimRLock(SimLock):
    def __init__(self, kernel):
        super().__init__(kernel)
        self.depth = 0

    def acquire(self, blocking=True, timeout=-1):
        if self.owner is not None and self.owner is self.k.cur:
            self.depth += 1
            return True
        if SimLock.acquire(self, blocking, timeout):
            self.depth = 1
            return True
        return False

    def release(self):
        self.depth -= 1
        if self.depth <= 0:
            SimLock.release(self)

    __enter__ = acquire


class ThreadingShim:
    """Stands in for the `threading` module inside the code under test: a
    lock, condition-free event or re-entrant lock created there blocks
    through the kernel, so that a deadlock shows as threads that never
    finish (a violation) instead of hanging the simulator."""

    def __init__(self, kernel):
        import threading as _t
        self._k = kernel
        self._t = _t

    def Lock(self):
        return SimLock(self._k)

    def RLock(self):
        return SimRLock(self._k)

    def Event(self):
        return SimEvent(self._k)

    def __getattr__(self, name):
        return getattr(self._t, name)
