"""One integer decides everything.

A ``Choices`` object is the only source of randomness a simulated run may
use.  It owns named, independent PRNG streams derived from the run seed and
logs every draw.  In replay mode the logged values are fed back; a missing or
out-of-range value reads as 0, which every caller treats as "the plain
choice" (no fault, zero delay, FIFO pick), so a shrunk choice list is always a
legal input.
"""
import hashlib
import random


def derive(seed, *names):
    h = hashlib.sha256(repr((seed,) + names).encode()).digest()
    return int.from_bytes(h[:8], 'big')


class Choices:
    STREAMS = ('net', 'sched', 'faults', 'app')

    def __init__(self, seed=0, replay=None):
        self.seed = seed
        self.replay = None
        self.pos = {}
        if replay is not None:
            self.replay = {k: list(v) for k, v in replay.items()}
        self.rngs = {}
        self.log = {}
        self.ndraws = 0

    def _rng(self, stream):
        r = self.rngs.get(stream)
        if r is None:
            r = self.rngs[stream] = random.Random(derive(self.seed, stream))
        return r

    def draw(self, stream, n, label=None):
        """Return an int in [0, n)."""
        if n <= 1:
            return 0
        self.ndraws += 1
        if self.replay is not None:
            lst = self.replay.get(stream, ())
            i = self.pos.get(stream, 0)
            self.pos[stream] = i + 1
            v = lst[i] if i < len(lst) else 0
            if not isinstance(v, int) or v < 0 or v >= n:
                v = 0
        else:
            v = self._rng(stream).randrange(n)
        self.log.setdefault(stream, []).append(v)
        return v

    def chance(self, stream, num, den, label=None):
        """True with probability num/den; value 0 (plain) means False."""
        return self.draw(stream, den, label) >= den - num

    def pick(self, stream, seq, label=None):
        return seq[self.draw(stream, len(seq), label)]

    def uniform01(self, stream, label=None):
        """A float in [0,1) with 2**20 resolution (used for random.random)."""
        return self.draw(stream, 1 << 20, label) / float(1 << 20)

    def dump(self):
        return {k: list(v) for k, v in self.log.items()}


class ChoiceRandom:
    """Stand-in for the ``random`` module seen by socketio.client: only
    ``random()`` is used there (jitter of the reconnect back-off)."""

    def __init__(self, choices, stream='app'):
        self.choices = choices
        self.stream = stream

    def random(self):
        return self.choices.uniform01(self.stream, 'random.random')
