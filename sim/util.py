"""Small helpers shared by the checks: JSON-safe encoding of cases, typed deep
equality, payload generators, digests."""
import hashlib
import json
import math


# ---------------------------------------------------------------- case <-> json
def jenc(v):
    """Encode a Python value (bytes, tuples, non-str keys) as plain JSON."""
    if isinstance(v, (bytes, bytearray)):
        return {'__b': bytes(v).hex()}
    if isinstance(v, tuple):
        return {'__t': [jenc(x) for x in v]}
    if isinstance(v, list):
        return [jenc(x) for x in v]
    if isinstance(v, dict):
        if all(isinstance(k, str) for k in v) and not any(
                k in ('__b', '__t', '__d', '__f') for k in v):
            return {k: jenc(x) for k, x in v.items()}
        return {'__d': [[jenc(k), jenc(x)] for k, x in v.items()]}
    if isinstance(v, float):
        if math.isfinite(v):
            return {'__f': v.hex()}
        return {'__f': repr(v)}
    return v


def jdec(v):
    if isinstance(v, list):
        return [jdec(x) for x in v]
    if isinstance(v, dict):
        if len(v) == 1:
            if '__b' in v:
                return bytes.fromhex(v['__b'])
            if '__t' in v:
                return tuple(jdec(x) for x in v['__t'])
            if '__d' in v:
                return {_hashable(jdec(k)): jdec(x) for k, x in v['__d']}
            if '__f' in v:
                s = v['__f']
                try:
                    return float.fromhex(s)
                except ValueError:
                    return float(s)
        return {k: jdec(x) for k, x in v.items()}
    return v


def _hashable(k):
    if isinstance(k, list):
        return tuple(k)
    return k


def dumps(case):
    return json.dumps(jenc(case), sort_keys=True)


def loads(s):
    return jdec(json.loads(s))


# ---------------------------------------------------------------- equality
def typed_eq(a, b):
    """Deep equality that tells bytes from str, int from float, bool from
    int; tuples and lists are NOT the same."""
    if type(a) is not type(b):
        return False
    if isinstance(a, (list, tuple)):
        return len(a) == len(b) and all(typed_eq(x, y) for x, y in zip(a, b))
    if isinstance(a, dict):
        if a.keys() != b.keys():
            return False
        return all(typed_eq(a[k], b[k]) for k in a)
    if isinstance(a, float):
        return a == b or (a != a and b != b)
    return a == b


def wire_norm(v):
    """What a JSON+attachments (or msgpack) round trip does to a value that
    is inside the claimed domain: tuples nested inside become lists (they are
    outside the domain, but the generator never nests them), nothing else
    changes."""
    if isinstance(v, tuple):
        return [wire_norm(x) for x in v]
    if isinstance(v, list):
        return [wire_norm(x) for x in v]
    if isinstance(v, dict):
        return {k: wire_norm(x) for k, x in v.items()}
    return v


def expect_args(payload):
    """The argument list a payload turns into: tuple -> its elements, None ->
    none, anything else -> one."""
    if payload is None:
        return []
    if isinstance(payload, tuple):
        return [wire_norm(x) for x in payload]
    return [wire_norm(payload)]


def shape_call_result(args):
    """What call() returns for acknowledged arguments."""
    if len(args) == 0:
        return None
    if len(args) == 1:
        return args[0]
    return tuple(args)


def contains_bytes(v):
    if isinstance(v, (bytes, bytearray)):
        return True
    if isinstance(v, (list, tuple)):
        return any(contains_bytes(x) for x in v)
    if isinstance(v, dict):
        return any(contains_bytes(x) for x in v.values())
    return False


# ---------------------------------------------------------------- generators
_STRS = ['', 'a', 'hello', 'x-y', '1,2', '/ns', '5', 'é', '日本', '\U0001f600',
         'a"b', 'line\nbreak', ' ', '_placeholder', 'null', '{}', '[', '0-',
         '2["x"]', 'tab\t']
_KEYS = ['a', 'b', 'k', 'id', 'data', 'num', 'x y', 'é', '', '0']


def gen_scalar(rng, allow_bytes=True):
    k = rng.randrange(9 if allow_bytes else 8)
    if k == 0:
        return None
    if k == 1:
        return rng.random() < 0.5
    if k == 2:
        return rng.choice([0, 1, -1, 7, 42, 255, 2**31, -2**31, 2**53 + 1,
                           2**63 - 1, -2**63, rng.randrange(-1000, 1000)])
    if k == 3:
        return rng.choice([0.0, 1.0, -1.5, 0.1, 1e10, 1e-7, 3.14,
                           float(rng.randrange(1000)) / 8])
    if k in (4, 5):
        return rng.choice(_STRS)
    if k in (6, 7):
        return ''.join(rng.choice('abcxyz01 -,/é')
                       for _ in range(rng.randrange(0, 8)))
    return gen_bytes(rng)


def gen_bytes(rng):
    k = rng.randrange(5)
    if k == 0:
        return b''
    if k == 1:
        return b'\x00'
    if k == 2:
        return b'4hello'
    return bytes(rng.randrange(256) for _ in range(rng.randrange(1, 12)))


def gen_value(rng, depth=2, allow_bytes=True):
    """A JSON-compatible tree with bytes leaves; no tuples inside."""
    if depth <= 0 or rng.random() < 0.45:
        return gen_scalar(rng, allow_bytes)
    if rng.random() < 0.5:
        return [gen_value(rng, depth - 1, allow_bytes)
                for _ in range(rng.randrange(0, 4))]
    d = {}
    for _ in range(rng.randrange(0, 4)):
        d[rng.choice(_KEYS)] = gen_value(rng, depth - 1, allow_bytes)
    if rng.random() < 0.08:
        # application data that resembles the protocol's attachment
        # placeholder without being one: a falsy '_placeholder', or only one
        # of the two keys.  (A truthy '_placeholder' together with 'num' IS a
        # placeholder on the wire - see checks/c02.py, known finding.)
        k = rng.randrange(4)
        if k == 0:
            d['_placeholder'] = rng.choice([False, 0, None, ''])
            d['num'] = rng.choice([0, 1, 7, -1, 'n'])
        elif k == 1:
            d['_placeholder'] = rng.choice([True, False, 1])
            d.pop('num', None)
        elif k == 2:
            d['num'] = rng.choice([0, 1, 2])
        else:
            d = {'_placeholder': rng.choice([False, 0]), 'num': 0}
    return d


def gen_payload(rng, depth=2, allow_bytes=True):
    """What an application passes to emit(): None, one value, or a tuple."""
    k = rng.randrange(6)
    if k == 0:
        return None
    if k == 1:
        return tuple(gen_value(rng, depth, allow_bytes)
                     for _ in range(rng.randrange(0, 4)))
    return gen_value(rng, depth, allow_bytes)


_EVENTS = ['ev', 'msg', 'my event', 'a-b', '1st', 'x,y', '/slash', 'é',
           'message', 'chat', 'update', 'E', 'connect_', 'on', '*x']


def gen_event_name(rng):
    if rng.random() < 0.7:
        return rng.choice(_EVENTS)
    s = ''.join(rng.choice('abcdef01-,/ é_') for _ in range(rng.randrange(1, 8)))
    if s in ('connect', 'disconnect', 'connect_error', '*',
             '__disconnect_final'):
        s += 'x'
    return s


# ---------------------------------------------------------------- digest
class Digest:
    def __init__(self):
        self.h = hashlib.sha256()
        self.n = 0

    def add(self, *items):
        self.n += 1
        self.h.update(repr(items).encode('utf-8', 'backslashreplace'))
        self.h.update(b'\n')

    def hex(self):
        return self.h.hexdigest()
