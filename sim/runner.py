"""Seeded search driver: process pool, watchdogs, shrinking, replay files,
known findings, evidence."""
import concurrent.futures as cf
import faulthandler
import hashlib
import importlib
import json
import multiprocessing
import os
import random
import subprocess
import sys
import time
import traceback

from . import util
from .choices import derive
from .shrink import shrink_case

ROOT = os.path.dirname(os.path.dirname(os.path.abspath(__file__)))
HASHSEED_DEFAULT = '0'


# ---------------------------------------------------------------------------
def load_check(prop):
    return importlib.import_module('checks.' + prop.lower())


def load_known():
    p = os.path.join(ROOT, 'known_findings.json')
    if os.environ.get('VERIF_IGNORE_KNOWN'):
        # development aid: produce minimised replay files for known findings
        return {'known': [], 'fixed': []}
    if not os.path.exists(p):
        return {'known': [], 'fixed': []}
    with open(p) as f:
        return json.load(f)


def known_match(known, prop, sig):
    for k in known.get('known', []):
        if k['property'] == prop and any(sig.startswith(s)
                                         for s in k['signatures']):
            return k
    return None


# ---------------------------------------------------------------------------
def run_one(mod, case):
    """Run one case; harness faults come back as {'harness': ...}."""
    faulthandler.dump_traceback_later(120, exit=True)
    try:
        res = mod.run(case)
    except Exception:
        res = {'harness': traceback.format_exc()}
    finally:
        faulthandler.cancel_dump_traceback_later()
    return res


def gen_case(mod, seed, tier):
    rng = random.Random(derive(seed, 'gen', mod.PROP))
    case = mod.gen(rng, tier)
    case['seed'] = seed
    case['property'] = mod.PROP
    return case


def _worker(args):
    """Run one chunk of seeds in a pristine child process (forked from a
    worker that never executes a case itself), so that state the code under
    test may keep process-wide can only come from the runs of this chunk: a
    violation that depends on it is then reproducible from the chunk prefix."""
    import pickle
    r, wfd = os.pipe()
    pid = os.fork()
    if pid == 0:
        code = 0
        try:
            os.close(r)
            data = pickle.dumps(_run_chunk(args))
            with os.fdopen(wfd, 'wb') as f:
                f.write(data)
        except BaseException:
            traceback.print_exc()
            code = 3
        os._exit(code)
    os.close(wfd)
    with os.fdopen(r, 'rb') as f:
        data = f.read()
    _, status = os.waitpid(pid, 0)
    if not data:
        prop, seeds = args[0], args[1]
        return [{'seed': seeds[0], 'harness':
                 'chunk child died (status %r) on seeds %s..%s'
                 % (status, seeds[0], seeds[-1])}]
    return pickle.loads(data)


def _run_chunk(args):
    prop, seeds, tier, selftest_every = args
    mod = load_check(prop)
    out = []
    done = []
    for seed in seeds:
        case = gen_case(mod, seed, tier)
        res = run_one(mod, case)
        item = {'seed': seed}
        if 'harness' in res:
            item['harness'] = res['harness']
            out.append(item)
            continue
        item['digest'] = res.get('digest')
        item['nontrivial'] = bool(res.get('nontrivial'))
        item['stats'] = res.get('stats', {})
        item['sim_time'] = res.get('sim_time', 0.0)
        item['cfg'] = res.get('cfg')
        item['cell'] = res.get('cell')
        if res.get('violations'):
            item['violations'] = res['violations']
            item['case'] = case
            item['prefix'] = list(done)
        done.append(seed)
        if selftest_every and seed % selftest_every == 0:
            res2 = run_one(mod, gen_case(mod, seed, tier))
            done.append(seed)
            if res2.get('digest') != res.get('digest'):
                item['nondet'] = (res.get('digest'), res2.get('digest'))
        out.append(item)
    return out


def chunks(lst, n):
    for i in range(0, len(lst), n):
        yield lst[i:i + n]


# ---------------------------------------------------------------------------
def main(prop, tier='quick', replay=None, selftest=False, runs=None,
         show=None):
    t0 = time.time()
    mod = load_check(prop)
    base_seed = int(os.environ.get('VERIF_SEED', '0'))
    workers = int(os.environ.get('VERIF_WORKERS', '16'))
    budget = float(os.environ.get('VERIF_BUDGET_S', '0') or 0)
    if replay:
        if not os.environ.get('VERIF_QUIET'):
            os.environ['VERIF_LOG'] = '1'
        return do_replay(mod, replay)
    if show is not None:
        os.environ['VERIF_LOG'] = '1'
        case = gen_case(mod, int(show), tier)
        print(util.dumps(case))
        res = run_one(mod, case)
        for ln in res.pop('log', []):
            print(ln)
        print(json.dumps(util.jenc(res), indent=1, default=repr)[:6000])
        return 0
    if selftest:
        return do_selftest(mod, tier, base_seed, workers)
    n = runs or mod.RUNS[tier]
    if budget == 0:
        budget = mod.BUDGET.get(tier, 0) if hasattr(mod, 'BUDGET') else 0
    seeds = [base_seed * 1_000_003 + i for i in range(n)]
    chunk = max(1, min(50, n // (workers * 4) or 1))
    jobs = [(prop, c, tier, 50) for c in chunks(seeds, chunk)]
    results = []
    harness = []
    stopped_early = False
    ctx = multiprocessing.get_context('fork')
    with cf.ProcessPoolExecutor(max_workers=workers, mp_context=ctx) as ex:
        futs = [ex.submit(_worker, j) for j in jobs]
        try:
            for f in cf.as_completed(futs):
                try:
                    results.extend(f.result())
                except Exception as e:   # BrokenProcessPool etc.
                    harness.append('worker died: %r' % (e,))
                    break
                if budget and time.time() - t0 > budget:
                    stopped_early = True
                    for g in futs:
                        g.cancel()
                    break
        finally:
            pass
    results.sort(key=lambda r: r['seed'])
    harness += ['seed=%s tier=%s (./check %s --tier %s --show %s)\n%s'
                % (r['seed'], tier, prop, tier, r['seed'], r['harness'])
                for r in results if 'harness' in r]
    nondet = [r for r in results if 'nondet' in r]
    good = [r for r in results if 'harness' not in r]

    known = load_known()
    directed = replay_known(mod, known)
    DIRECTED_HITS[0] = sum(1 for k, hit in directed if hit)
    viol = [r for r in good if r.get('violations')]
    by_sig = {}
    for r in viol:
        for v in r['violations']:
            by_sig.setdefault(v['sig'], []).append((r, v))
    exit_code = 0
    known_lines = []
    new_sigs = []
    known_groups = {}
    for sig, lst in sorted(by_sig.items()):
        k = known_match(known, prop, sig)
        if k:
            g = known_groups.setdefault(k['id'], [k, [], 0])
            g[1].append(sig)
            g[2] += len(lst)
        else:
            new_sigs.append(sig)
    for k, hit in directed:
        if hit and k['id'] not in known_groups:
            known_groups[k['id']] = [k, [hit], 0]
        elif not hit:
            print('NOTE: known finding %s did not reproduce from %s on this '
                  'tree' % (k['id'], k.get('replay')))
    for ksig, (k, sigs, nruns) in sorted(known_groups.items()):
        what = k['what'] if len(k['what']) < 300 else k['what'][:297] + '...'
        known_lines.append('KNOWN-FINDING: property=%s %s [signature %s; '
                           '%d runs; %d manifestations]'
                           % (prop, what, ksig, nruns, len(sigs)))
    for ln in known_lines:
        print(ln)
    reported = []
    attempts = 0
    for sig in new_sigs:
        if len(reported) >= 3 or attempts >= 10:
            break
        attempts += 1
        path = None
        # a class may have several witnesses: try a few of them
        for r, v in by_sig[sig][:3]:
            path = report_violation(mod, r['case'], v,
                                    prefix=r.get('prefix'), tier=tier)
            if path is not None:
                break
        if path is None:
            harness.append('violation %s did not reproduce in a fresh '
                           'process (determinism fault)' % sig)
        else:
            reported.append((sig, path))
            print('VIOLATION property=%s replay=%s' % (prop, path))
            print('  clause: %s' % sig)
            print('  detail: %s' % str(v.get('detail'))[:600])
            exit_code = 1
    if os.environ.get('VERIF_VERBOSE'):
        for sig in new_sigs:
            print('  class %s: %d runs, e.g. seed %s: %s' % (
                sig, len(by_sig[sig]), by_sig[sig][0][0]['seed'],
                str(by_sig[sig][0][1].get('detail'))[:200]))
    if len(new_sigs) > attempts:
        print('  (+%d further violation classes not minimised)'
              % (len(new_sigs) - attempts))

    wall = time.time() - t0
    write_evidence(mod, tier, base_seed, good, viol, known_lines, reported,
                   wall, stopped_early, nondet, harness)
    if harness or nondet:
        for h in harness[:3]:
            head, _, rest = h.partition('\n')
            print('HARNESS-FAULT: %s\n%s' % (head, rest[-1500:]))
        for r in nondet[:3]:
            print('HARNESS-FAULT: nondeterministic digest seed=%s %s'
                  % (r['seed'], r['nondet']))
        if exit_code == 0:
            exit_code = 2
    print('%s %s: %d runs, %d distinct nontrivial, %d violating runs '
          '(%d known classes, %d new), %.1fs%s'
          % (prop, tier, len(good),
             len({r['digest'] for r in good if r['nontrivial']}),
             len(viol), len(known_lines), len(new_sigs), wall,
             ' (stopped early on budget)' if stopped_early else ''))
    return exit_code


# ---------------------------------------------------------------------------
def replay_known(mod, known):
    """Directed replays: every listed known finding of this property is
    re-run from its committed replay file, so that its KNOWN-FINDING line
    does not depend on the seeded search happening to meet it."""
    out = []
    for k in known.get('known', []):
        if k['property'] != mod.PROP or not k.get('replay'):
            continue
        path = os.path.join(ROOT, k['replay'])
        try:
            with open(path) as f:
                case = util.loads(f.read())
            res = run_one(mod, case)
        except Exception:
            out.append((k, None))
            continue
        hit = None
        for x in res.get('violations', []) if 'harness' not in res else []:
            if any(x['sig'].startswith(s) for s in k['signatures']):
                hit = x['sig']
                break
        out.append((k, hit))
    return out


def report_violation(mod, case, v, prefix=None, tier='quick'):
    """Minimise, write the replay file, confirm in a fresh interpreter.  If
    the single case does not reproduce on its own, the violation depends on
    state left behind by the earlier runs of its chunk: then the replay file
    names those runs as a prefix to execute first."""
    path = _report_violation(mod, case, v, None, tier)
    if path is None and prefix:
        path = _report_violation(mod, case, v, prefix, tier)
    return path


def _report_violation(mod, case, v, prefix, tier):
    sig = v['sig']

    def still_fails(c):
        res = run_one(mod, c)
        if 'harness' in res:
            return None
        for x in res.get('violations', []):
            if x['sig'] == sig:
                return res
        return None
    if prefix:
        small = dict(case)        # no minimisation across runs
        small['prefix'] = {'tier': tier, 'seeds': list(prefix)}
    else:
        try:
            small = shrink_case(mod, case, still_fails, budget_s=60)
        except Exception:
            small = case
        res = still_fails(small)
        if res is None:
            small = case
            res = still_fails(case)
            if res is None:
                return None
        small = dict(small)
    small['expect'] = {'sig': sig}
    small['hashseed'] = os.environ.get('PYTHONHASHSEED', HASHSEED_DEFAULT)
    rdir = os.environ.get('VERIF_REPLAY_DIR') or os.path.join(ROOT, 'replays')
    os.makedirs(rdir, exist_ok=True)
    h = hashlib.sha256(sig.encode()).hexdigest()[:8]
    path = os.path.join(rdir, '%s-%s-%s.json'
                        % (mod.PROP, case.get('seed'), h))
    with open(path, 'w') as f:
        f.write(util.dumps(small))
    # fresh interpreter
    p = subprocess.run([sys.executable, os.path.join(ROOT, 'check'),
                        mod.PROP, '--replay', path, '--quiet'],
                       capture_output=True, text=True, timeout=300)
    if p.returncode != 1 or 'VIOLATION' not in p.stdout:
        return None
    return path


def do_replay(mod, path, quiet=False):
    with open(path) as f:
        case = util.loads(f.read())
    pre = case.pop('prefix', None)
    if pre:
        # the violation depends on process-wide state left by earlier runs
        for s0 in pre['seeds']:
            run_one(mod, gen_case(mod, s0, pre['tier']))
    res = run_one(mod, case)
    if 'harness' in res:
        print('HARNESS-FAULT: %s' % res['harness'])
        return 2
    want = (case.get('expect') or {}).get('sig')
    known = load_known()
    hit = None
    for v in res.get('violations', []):
        if want is None or v['sig'] == want:
            hit = v
            break
    for ln in res.get('log', []) if not os.environ.get('VERIF_QUIET') else []:
        print(ln)
    if hit:
        k = known_match(known, mod.PROP, hit['sig'])
        if k:
            print('KNOWN-FINDING: property=%s %s [%s]'
                  % (mod.PROP, k['what'], hit['sig']))
            return 0
        print('VIOLATION property=%s replay=%s' % (mod.PROP, path))
        print('  clause: %s' % hit['sig'])
        print('  detail: %s' % str(hit.get('detail'))[:2000])
        return 1
    print('replay did not violate%s' % (' (expected %s)' % want if want
                                         else ''))
    return 0


# ---------------------------------------------------------------------------
def do_selftest(mod, tier, base_seed, workers, n=64):
    """Determinism: same seed twice in-process, in a fresh interpreter, and
    under another PYTHONHASHSEED."""
    seeds = [base_seed * 1_000_003 + i for i in range(n)]
    a = {}
    for s in seeds:
        r1 = run_one(mod, gen_case(mod, s, tier))
        r2 = run_one(mod, gen_case(mod, s, tier))
        if 'harness' in r1:
            print('HARNESS-FAULT: %s' % r1['harness'])
            return 2
        if r1['digest'] != r2['digest']:
            print('HARNESS-FAULT: seed %d digest differs in-process' % s)
            return 2
        a[s] = r1['digest']
    if os.environ.get('VERIF_SELFTEST_CHILD'):
        print(json.dumps({str(k): v for k, v in a.items()}))
        return 0
    bad = 0
    # the code under test iterates over sets in places (Client.connect builds
    # its namespace list from a set): checks whose scripts depend on that are
    # only compared under the pinned hash seed
    seeds_hs = ('0', '0') if getattr(mod, 'HASHSEED_DEPENDENT', False) \
        else ('0', '12345')
    for hs in seeds_hs:
        env = dict(os.environ)
        env['PYTHONHASHSEED'] = hs
        env['VERIF_SELFTEST_CHILD'] = '1'
        env['VERIF_HASHSEED'] = hs
        p = subprocess.run([sys.executable, os.path.join(ROOT, 'check'),
                            mod.PROP, '--selftest', '--tier', tier],
                           capture_output=True, text=True, env=env,
                           timeout=900)
        try:
            b = json.loads(p.stdout.strip().splitlines()[-1])
        except Exception:
            print('HARNESS-FAULT: selftest child failed: %s %s'
                  % (p.stdout[-500:], p.stderr[-500:]))
            return 2
        for s in seeds:
            if b.get(str(s)) != a[s]:
                bad += 1
                print('HARNESS-FAULT: seed %d digest differs under '
                      'PYTHONHASHSEED=%s' % (s, hs))
    print('selftest %s: %d seeds x (2 in-process + 2 fresh interpreters, '
          'hash seeds %s): %s' % (mod.PROP, n, '/'.join(seeds_hs),
                                  'identical' if not bad else 'DIFFER'))
    return 2 if bad else 0


# ---------------------------------------------------------------------------
def merge_counts(dst, src):
    for k, v in (src or {}).items():
        if isinstance(v, dict):
            merge_counts(dst.setdefault(k, {}), v)
        elif isinstance(v, (int, float)):
            dst[k] = dst.get(k, 0) + v


def sensitivity_info(prop):
    """Kill matrix recorded by tools/mutants.py and tools/seeded.py (run
    separately; this run did not re-execute them)."""
    out = {'note': 'results of tools/mutants.py (seeded mutants) and '
                   'tools/seeded.py (changes written by independent '
                   'sub-agents), recorded when those tools were last run'}
    try:
        with open(os.path.join(ROOT, 'mutants', 'results.json')) as f:
            m = json.load(f)
        mine = {k: v for k, v in m.items() if k.startswith(prop + '-')
                and isinstance(v, dict)}
        out['mutants_total'] = len(mine)
        out['mutants_killed'] = sorted(k for k, v in mine.items()
                                       if v.get('killed'))
        out['mutants_surviving'] = sorted(k for k, v in mine.items()
                                          if not v.get('killed'))
    except Exception:
        pass
    try:
        import glob
        det = {}
        for mp in glob.glob(os.path.join(ROOT, 'seeded', '*', 'meta.json')):
            with open(mp) as f:
                d = json.load(f)
            if d.get('property') != prop:
                continue
            name = os.path.basename(os.path.dirname(mp))
            by = sorted(k.split('/')[0] for k, v in
                        d.get('checks', {}).items() if v.get('exit') == 1)
            if prop in by:
                det[name] = True
            elif by:
                det[name] = 'reported by ' + ', '.join(by)
            elif d.get('not_claimed'):
                det[name] = 'not claimed (outside the quantifier)'
            else:
                det[name] = False
        out['subagent_changes'] = det
    except Exception:
        pass
    return out


DIRECTED_HITS = [0]


def write_evidence(mod, tier, seed, good, viol, known_lines, reported, wall,
                   stopped_early, nondet, harness):
    stats = {}
    cfgs = {}
    for r in good:
        merge_counts(stats, r.get('stats'))
        c = r.get('cfg')
        if c is not None:
            cfgs[c] = cfgs.get(c, 0) + 1
    digests = {r['digest'] for r in good if r['nontrivial']}
    sim_time = sum(r.get('sim_time', 0.0) for r in good)
    samples = []
    for r in good[:2]:
        try:
            case = gen_case(mod, r['seed'], tier)
            samples.append(util.jenc(mod.sample(case)) if hasattr(
                mod, 'sample') else util.jenc(case))
        except Exception:
            pass
    n = len(good)
    ev = {
        'property_id': mod.PROP,
        'tier': tier,
        'seed': seed,
        'level': 'exploration',
        'wall_s': round(wall, 2),
        'violations': len(reported),
        'coverage': {
            'evaluations': n,
            'distinct_nontrivial': len(digests),
            'rule': mod.RULE,
            'samples': samples or ['(no run completed)'],
            'runs_per_hour': int(n / wall * 3600) if wall > 0 else 0,
            'seed_range': [good[0]['seed'], good[-1]['seed']] if good else [],
            'simulated_seconds': round(sim_time, 3),
            'counters': stats,
            'configurations': cfgs,
            'grid_cells_covered': len({r['cell'] for r in good
                                       if r.get('cell') is not None}),
            'grid_size': getattr(mod, 'GRID', None),
            # seeded runs that violated, plus the directed replays of known
            # findings that reproduced (those always run)
            'violating_runs': len(viol) + DIRECTED_HITS[0],
            'directed_known_replays_reproduced': DIRECTED_HITS[0],
            'known_findings_seen': known_lines,
            'new_violations': [s for s, _ in reported],
            'stopped_early_on_budget': stopped_early,
            'determinism_sample': {
                'runs_rechecked': len([r for r in good
                                       if r['seed'] % 50 == 0]),
                'mismatches': len(nondet)},
            'harness_faults': len(harness),
            'sensitivity': sensitivity_info(mod.PROP),
            'real_code': getattr(mod, 'REAL', []),
            'stubs': getattr(mod, 'STUBS', []),
        },
        'assumptions': getattr(mod, 'ASSUMPTIONS', []),
    }
    edir = os.environ.get('VERIF_EVIDENCE_DIR') or \
        os.path.join(ROOT, 'evidence')
    os.makedirs(edir, exist_ok=True)
    with open(os.path.join(edir, mod.PROP + '.json'), 'w') as f:
        json.dump(ev, f, indent=1, sort_keys=True, default=repr)
        f.write('\n')
