"""SimBus: a single totally ordered pub/sub channel (what Redis / Kombu pub/sub
give a subscriber).  Every host's listener consumes it at its own seeded pace
(immediate, lagging, stalled); messages are pickled by the sender and
unpickled by the receiver, as the bundled back ends do.  The bus never loses
or reorders.  Faults: per-host lag and stall, injected foreign messages,
listener-iterator failures."""
import asyncio
import pickle

import socketio
from socketio.async_pubsub_manager import AsyncPubSubManager


class SimBus:
    def __init__(self, world, lags=(0.0,)):
        self.world = world
        self.log = []            # (t_pub, origin, raw)
        self.hosts = []
        self.lags = tuple(lags)
        self.stalled = set()
        self.fail_at = {}        # host name -> set of log indexes at which
        #                          the listen iterator raises once
        self.waiters = []        # asyncio futures to wake on publish
        self.fail_publish = {}   # host name -> True: its next publish raises

    def publish(self, raw, origin=None, method=None):
        w = self.world
        i = len(self.log)
        self.log.append((w.now(), origin, raw))
        w.rec.add('bus_pub', i=i, origin=origin,
                  method=method or _method_of(raw))
        for h in self.hosts:
            h._on_publish(i)
        for f in self.waiters:
            if not f.done():
                f.set_result(None)
        self.waiters = []
        return i

    def inject(self, raw):
        """A foreign publisher (not one of the simulated hosts)."""
        self.world.rec.count('fault.bus_foreign')
        return self.publish(raw, origin='foreign')

    def stall(self, name):
        self.stalled.add(name)
        self.world.rec.count('fault.bus_stall')

    def release(self, name):
        self.stalled.discard(name)
        for f in self.waiters:
            if not f.done():
                f.set_result(None)
        self.waiters = []

    def all_consumed(self):
        return all(h.cursor >= len(self.log) for h in self.hosts
                   if not h.write_only)


def _method_of(raw):
    """For the log only; never unpickles foreign bytes (hostile pickles can
    take arbitrarily long)."""
    if isinstance(raw, dict):
        m = raw.get('method')
        return m if isinstance(m, str) else None
    return None


def _wake(f):
    if not f.done():
        f.set_result(None)


class _HostEnd:
    """State of one subscriber."""

    def _bus_init(self, bus, name, lag=None):
        self.bus = bus
        self.bus_name = name
        self.cursor = 0
        self.subscribed = False
        self.visible_at = []
        self.lag = lag       # None: draw per message from bus.lags
        bus.hosts.append(self)

    def _on_publish(self, i):
        w = self.bus.world
        if self.lag is None:
            lag = w.choices.pick('net', self.bus.lags, 'buslag')
        else:
            lag = self.lag
        prev = self.visible_at[-1] if self.visible_at else 0.0
        self.visible_at.append(max(prev, w.now() + lag))

    def _ready(self):
        if self.bus_name in self.bus.stalled:
            return False
        return self.cursor < len(self.bus.log) and \
            self.bus.world.now() >= self.visible_at[self.cursor] - 2e-6
        # (2e-6: the loop fires timers up to its clock resolution early, as
        # asyncio does)

    def _take(self):
        i = self.cursor
        fails = self.bus.fail_at.get(self.bus_name)
        if fails and i in fails:
            fails.discard(i)
            self.bus.world.rec.count('fault.listen_raise')
            raise ConnectionError('simulated backend failure while '
                                  'listening')
        self.cursor = i + 1
        self.bus.world.rec.add('bus_take', host=self.bus_name, i=i)
        return self.bus.log[i][2]


class SimPubSubManager(_HostEnd, socketio.PubSubManager):
    name = 'simpubsub'

    def __init__(self, bus, name, lag=None, **kw):
        socketio.PubSubManager.__init__(self, **kw)
        self._bus_init(bus, name, lag)

    def _publish(self, data):
        if self.bus.fail_publish.pop(self.bus_name, None):
            self.bus.world.rec.count('fault.publish_failure')
            raise ConnectionError('injected publish failure')
        self.bus.publish(pickle.dumps(data), origin=self.bus_name,
                         method=data.get('method'))

    def _listen(self):
        k = self.bus.world.kernel
        if not self.subscribed:
            # a subscriber only sees what is published after it subscribed
            self.subscribed = True
            self.cursor = len(self.bus.log)
        while True:
            # wait until something exists beyond the cursor and the host is
            # not stalled, then until that message becomes visible to it
            k.block(lambda: self.cursor < len(self.bus.log) and
                    self.bus_name not in self.bus.stalled, None,
                    label='bus.listen')
            if self.visible_at[self.cursor] > k.now:
                k.sleep_until(self.visible_at[self.cursor])
            if self._ready():
                yield self._take()


class AsyncSimPubSubManager(_HostEnd, AsyncPubSubManager):
    name = 'asyncsimpubsub'

    def __init__(self, bus, name, lag=None, **kw):
        AsyncPubSubManager.__init__(self, **kw)
        self._bus_init(bus, name, lag)

    async def _publish(self, data):
        if self.bus.fail_publish.pop(self.bus_name, None):
            self.bus.world.rec.count('fault.publish_failure')
            raise ConnectionError('injected publish failure')
        self.bus.publish(pickle.dumps(data), origin=self.bus_name,
                         method=data.get('method'))

    async def _listen(self):
        loop = self.bus.world.loop
        if not self.subscribed:
            self.subscribed = True
            self.cursor = len(self.bus.log)
        while True:
            while not self._ready():
                if self.cursor < len(self.bus.log) and \
                        self.bus_name not in self.bus.stalled:
                    # absolute deadline: time() + (t - time()) may round
                    # to one ulp short of t and spin
                    f = loop.create_future()
                    h = loop.call_at(self.visible_at[self.cursor],
                                     _wake, f)
                    try:
                        await f
                    finally:
                        h.cancel()
                else:
                    f = loop.create_future()
                    self.bus.waiters.append(f)
                    await f
            yield self._take()
