"""Minimisation of a failing case: ddmin over the op / fault lists, then
check-specific simplifications, then the schedule and network choices
(all-plain first, then chunk by chunk)."""
import copy
import time


def ddmin_list(items, test, deadline):
    """Classic ddmin: smallest sublist (order kept) for which test() holds."""
    n = 2
    items = list(items)
    while len(items) >= 1 and time.time() < deadline:
        size = max(1, len(items) // n)
        subsets = [items[i:i + size] for i in range(0, len(items), size)]
        reduced = False
        # try complements (drop one chunk)
        for i in range(len(subsets)):
            if time.time() >= deadline:
                break
            comp = [x for j, s in enumerate(subsets) if j != i for x in s]
            if len(comp) < len(items) and test(comp):
                items = comp
                n = max(n - 1, 2)
                reduced = True
                break
        if not reduced:
            if size == 1:
                break
            n = min(len(items), n * 2)
    return items


def shrink_case(mod, case, still_fails, budget_s=60):
    deadline = time.time() + budget_s
    case = copy.deepcopy(case)
    lists = getattr(mod, 'SHRINK_LISTS', ['ops'])
    for key in lists:
        if key not in case or not isinstance(case[key], list):
            continue

        def test(sub, key=key):
            c = dict(case)
            c[key] = sub
            return still_fails(c) is not None
        case[key] = ddmin_list(case[key], test, deadline)
    simp = getattr(mod, 'simplify', None)
    if simp is not None:
        progress = True
        while progress and time.time() < deadline:
            progress = False
            for cand in simp(case):
                if time.time() >= deadline:
                    break
                if still_fails(cand) is not None:
                    case = cand
                    progress = True
                    break
    # choices: record what the failing run drew, then try to make it plain
    res = still_fails(case)
    if res is not None and res.get('choices') is not None:
        rec = res['choices']
        c = dict(case)
        c['choices'] = {}
        if still_fails(c) is not None:
            case = c
        else:
            c = dict(case)
            c['choices'] = rec
            if still_fails(c) is not None:
                case = c
                for stream in list(rec):
                    vals = list(case['choices'][stream])
                    size = max(1, len(vals) // 2)
                    while size >= 1 and time.time() < deadline:
                        i = 0
                        while i < len(vals) and time.time() < deadline:
                            if any(vals[i:i + size]):
                                trial = vals[:i] + [0] * len(
                                    vals[i:i + size]) + vals[i + size:]
                                c = dict(case)
                                c['choices'] = dict(case['choices'])
                                c['choices'][stream] = trial
                                if still_fails(c) is not None:
                                    vals = trial
                                    case = c
                            i += size
                        size //= 2
    return case
