"""A fake of the redis client library, just enough for RedisManager /
AsyncRedisManager: Redis.from_url(), publish(), pubsub().subscribe / listen /
unsubscribe, and RedisError.  One FakeBroker per world plays the Redis server:
fire-and-forget pub/sub (a subscriber that is not connected misses what is
published meanwhile), outages during which every call raises RedisError and
after which existing connections are dead."""
import asyncio


class RedisError(Exception):
    pass


class _Exceptions:
    RedisError = RedisError


class FakeBroker:
    def __init__(self, world):
        self.world = world
        self.down = False
        self.epoch = 0          # bumped at every outage: old connections die
        self.subs = []          # live subscriptions
        self.waiters = []
        self.publish_failures = 0   # next N publish() calls fail (only the
        #                             publishing connection hiccups)

    def outage(self, on):
        self.down = on
        if on:
            self.epoch += 1
            self.world.rec.count('fault.redis_outage')
        self.world.rec.add('redis_outage', on=on)
        self._wake()

    def _wake(self):
        for f in self.waiters:
            if not f.done():
                f.set_result(None)
        self.waiters = []

    def check(self, epoch=None):
        if self.down or (epoch is not None and epoch != self.epoch):
            self.world.rec.count('fault.redis_error')
            raise RedisError('connection lost')

    def publish(self, channel, data):
        self.world.rec.add('redis_pub', n=len(self.subs))
        for s in list(self.subs):
            if s.channel == channel and s.epoch == self.epoch:
                s.inbox.append({'type': 'message',
                                'channel': channel.encode('utf-8'),
                                'data': data})
        self._wake()


class _Sub:
    def __init__(self, broker):
        self.broker = broker
        self.channel = None
        self.epoch = broker.epoch
        self.inbox = []


# -- synchronous client (module global `redis` of socketio.redis_manager) ----
class FakeRedisModule:
    exceptions = _Exceptions

    def __init__(self, broker, kernel):
        mod = self

        class Redis:
            @classmethod
            def from_url(cls, url, **kw):
                return cls()

            def __init__(self):
                self.epoch = broker.epoch

            def publish(self, channel, data):
                broker.check(self.epoch)
                if broker.publish_failures > 0:
                    broker.publish_failures -= 1
                    broker.world.rec.count('fault.redis_publish_error')
                    raise RedisError('publish failed')
                broker.publish(channel, data)
                return 1

            def pubsub(self, ignore_subscribe_messages=True):
                return PubSub(self.epoch)

        class PubSub:
            def __init__(self, epoch):
                self.sub = _Sub(broker)
                self.sub.epoch = epoch

            def subscribe(self, channel):
                broker.check(self.sub.epoch)
                self.sub.channel = channel
                if self.sub not in broker.subs:
                    broker.subs.append(self.sub)

            def unsubscribe(self, channel):
                if self.sub in broker.subs:
                    broker.subs.remove(self.sub)

            def listen(self):
                while True:
                    kernel.block(lambda: self.sub.inbox or broker.down or
                                 self.sub.epoch != broker.epoch, None,
                                 label='redis.listen')
                    if not self.sub.inbox:
                        if self.sub in broker.subs:
                            broker.subs.remove(self.sub)
                        broker.check(self.sub.epoch)
                    yield self.sub.inbox.pop(0)
        self.Redis = Redis


# -- asyncio client (module global `aioredis` of socketio.async_redis_manager)
class FakeAioRedisModule:
    def __init__(self, broker):
        class Redis:
            @classmethod
            def from_url(cls, url, **kw):
                return cls()

            def __init__(self):
                self.epoch = broker.epoch

            async def publish(self, channel, data):
                broker.check(self.epoch)
                if broker.publish_failures > 0:
                    broker.publish_failures -= 1
                    broker.world.rec.count('fault.redis_publish_error')
                    raise RedisError('publish failed')
                broker.publish(channel, data)
                return 1

            def pubsub(self, ignore_subscribe_messages=True):
                return PubSub(self.epoch)

        class PubSub:
            def __init__(self, epoch):
                self.sub = _Sub(broker)
                self.sub.epoch = epoch

            async def subscribe(self, channel):
                broker.check(self.sub.epoch)
                self.sub.channel = channel
                if self.sub not in broker.subs:
                    broker.subs.append(self.sub)

            async def unsubscribe(self, channel):
                if self.sub in broker.subs:
                    broker.subs.remove(self.sub)

            async def listen(self):
                loop = broker.world.loop
                while True:
                    while not (self.sub.inbox or broker.down or
                               self.sub.epoch != broker.epoch):
                        f = loop.create_future()
                        broker.waiters.append(f)
                        await f
                    if not self.sub.inbox:
                        if self.sub in broker.subs:
                            broker.subs.remove(self.sub)
                        broker.check(self.sub.epoch)
                    yield self.sub.inbox.pop(0)
        self.Redis = Redis
