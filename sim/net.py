"""Simulated websocket pipes (both worlds).

`sched` is either the SimLoop or the SimKernel: both offer time(), call_at()
and call_later().

A connection never loses, duplicates or reorders frames while it lives; it can
be refused, closed by either side, or severed (each side told after its own
delay, or never: half-open).  Latencies and back-pressure pauses are seeded
choices from a small set; delivery times are monotone per direction.
"""
import asyncio
import base64

CLOSED = type('CLOSED', (), {'__repr__': lambda s: 'CLOSED'})()


class Refused(Exception):
    pass


class Net:
    def __init__(self, loop, choices, rec, lat=(0.0,), bp=(0.0,),
                 queue_factory=None):
        self.loop = loop
        self.queue_factory = queue_factory or asyncio.Queue
        self.choices = choices
        self.rec = rec
        self.lat = tuple(lat)
        self.bp = tuple(bp)
        self.acceptors = {}
        self.conns = []
        self.attempts = []
        self.refuse_hook = None     # callable(name, attempt_no) -> bool
        self.down = set()
        self.transcode = False
        self.tap = None             # callable(conn, direction, data)

    def register(self, name, acceptor):
        self.acceptors[name] = acceptor

    def latency(self):
        return self.choices.pick('net', self.lat, 'lat')

    def backpressure(self):
        return self.choices.pick('net', self.bp, 'bp')

    def open(self, name, info=None):
        n = len(self.attempts)
        self.attempts.append({'t': self.loop.time(), 'name': name,
                              'info': info})
        refused = name in self.down or name not in self.acceptors
        if not refused and self.refuse_hook is not None:
            refused = bool(self.refuse_hook(name, n))
        self.rec.add('net_attempt', name=name, n=n, refused=refused)
        if refused:
            self.rec.count('fault.refuse')
            raise Refused(name)
        conn = Conn(self, len(self.conns), name)
        conn.info = info if isinstance(info, dict) else None
        self.conns.append(conn)
        self.acceptors[name](conn)
        return conn


class Conn:
    def __init__(self, net, cid, name):
        self.net = net
        self.loop = net.loop
        self.cid = cid
        self.name = name
        self.to_server = net.queue_factory()
        self._client_sink = None
        self._client_backlog = []
        self.told = {'server': False, 'client': False}
        self.severed = False
        self.last = {'c2s': 0.0, 's2c': 0.0}
        self.fifo = {'c2s': [], 's2c': []}
        self.nframes = {'c2s': 0, 's2c': 0}
        self.server_task = None
        self.drop_hook = None   # callable(direction, index, data)->bool: sever
        self.after_hook = None  # callable(direction, data), after delivery

    # the client end may be attached after the server has already answered
    # (the opener can be pre-empted between open() and attaching): frames
    # wait in a backlog, nothing is lost
    @property
    def client_sink(self):
        return self._client_sink

    @client_sink.setter
    def client_sink(self, sink):
        self._client_sink = sink
        if sink is not None:
            backlog, self._client_backlog = self._client_backlog, []
            for item in backlog:
                sink(item)

    def _to_client(self, item):
        if self._client_sink is None:
            self._client_backlog.append(item)
        else:
            self._client_sink(item)

    # ---- sending ------------------------------------------------------
    def post(self, d, data, lat=None):
        """Non-suspending send: schedule the delivery."""
        side = 'server' if d == 's2c' else 'client'
        if self.told[side]:
            return False
        if lat is None:
            lat = self.net.latency()
        at = max(self.last[d], self.loop.time() + lat)
        self.last[d] = at
        self.fifo[d].append(data)
        self.loop.call_at(at, self._deliver, d)
        return True

    async def send(self, d, data):
        side = 'server' if d == 's2c' else 'client'
        bp = self.net.backpressure()
        if bp:
            self.net.rec.count('net.backpressure')
            await asyncio.sleep(bp)
        if self.told[side]:
            raise OSError('connection closed')
        self.post(d, data)

    def send_blocking(self, d, data, sleep):
        """Thread-world twin of send(): `sleep` is the kernel's sleep."""
        side = 'server' if d == 's2c' else 'client'
        bp = self.net.backpressure()
        if bp:
            self.net.rec.count('net.backpressure')
            sleep(bp)
        if self.told[side]:
            raise OSError('connection closed')
        self.post(d, data)

    def _deliver(self, d):
        # one timer per frame, but the frame delivered is always the oldest
        # undelivered one of this direction: order never depends on how the
        # scheduler breaks ties between timers due at the same instant
        data = self.fifo[d].pop(0)
        if self.severed:
            return
        if data is CLOSED:
            self._tell('server' if d == 'c2s' else 'client')
            return
        i = self.nframes[d]
        self.nframes[d] = i + 1
        if self.drop_hook is not None and self.drop_hook(d, i, data):
            return
        if self.net.transcode and isinstance(data, (bytes, bytearray)):
            data = 'b' + base64.b64encode(data).decode('ascii')
        if self.net.tap is not None:
            self.net.tap(self, d, data)
        if d == 'c2s':
            if not self.told['server']:
                self.to_server.put_nowait(data)
        else:
            if not self.told['client']:
                self._to_client(data)
        if self.after_hook is not None:
            self.after_hook(d, data)

    def sever_now(self):
        """Abrupt loss both sides learn of at this very instant (the marker
        sits right behind the frames already handed over)."""
        if self.severed:
            return
        self.sever(None, None)
        self._tell('client')
        self._tell('server')

    # ---- ending -------------------------------------------------------
    def close(self, by, lat=None):
        """Orderly close by one side; the other side is told in order."""
        if self.told[by]:
            return
        self.told[by] = True
        other = 'client' if by == 'server' else 'server'
        d = 's2c' if by == 'server' else 'c2s'
        if by == 'server':
            # a local close wakes the local reader (ASGI: the next receive()
            # yields websocket.disconnect; simple-websocket: receive() raises
            # ConnectionClosed)
            self.to_server.put_nowait(CLOSED)
        if self.severed:
            return
        if lat is None:
            lat = self.net.latency()
        at = max(self.last[d], self.loop.time() + lat)
        self.last[d] = at
        self.fifo[d].append(CLOSED)
        self.loop.call_at(at, self._deliver, d)

    def _tell(self, side):
        if self.told[side]:
            return
        self.told[side] = True
        if side == 'server':
            self.to_server.put_nowait(CLOSED)
        else:
            self._to_client(CLOSED)

    def sever(self, tell_server=0.0, tell_client=0.0):
        """Abrupt loss: frames in flight are gone; each side learns of it after
        its own delay, or never (None) - then only its ping timeout helps."""
        if self.severed:
            return
        self.severed = True
        self.net.rec.count('fault.sever')
        self.net.rec.add('net_sever', cid=self.cid,
                         tell_server=tell_server, tell_client=tell_client)
        if tell_server is not None:
            self.loop.call_later(tell_server, self._tell, 'server')
        else:
            self.net.rec.count('fault.half_open_server')
        if tell_client is not None:
            self.loop.call_later(tell_client, self._tell, 'client')
        else:
            self.net.rec.count('fault.half_open_client')


class SimAsyncWS:
    """What engineio's asyncio server gets as its websocket (the entry of
    the async-driver table).  Modelled on engineio.async_drivers.asgi."""

    def __init__(self, handler, server):
        self.handler = handler
        self.conn = None

    async def __call__(self, environ):
        self.conn = environ['sim.conn']
        await self.handler(self)
        return ''

    async def wait(self):
        item = await self.conn.to_server.get()
        if item is CLOSED:
            # keep the marker for later waiters
            self.conn.to_server.put_nowait(CLOSED)
            raise OSError('websocket.disconnect')
        return item

    async def send(self, message):
        await self.conn.send('s2c', message)

    async def close(self):
        self.conn.close('server')


def make_async_driver():
    return {
        'asyncio': True,
        'translate_request': lambda environ: environ,
        'make_response': lambda status, headers, payload, environ: (
            status, payload),
        'websocket': SimAsyncWS,
    }


def ws_environ(conn, extra=None):
    env = {
        'REQUEST_METHOD': 'GET',
        'QUERY_STRING': 'transport=websocket&EIO=4',
        'PATH_INFO': '/socket.io/',
        'HTTP_UPGRADE': 'websocket',
        'HTTP_CONNECTION': 'Upgrade',
        'SERVER_NAME': 'sim',
        'sim.conn': conn,
    }
    if extra:
        env.update(extra)
    return env


# --------------------------------------------------------------------------
# thread world: server side
# --------------------------------------------------------------------------
def make_thread_driver(kernel):
    from .threads import SimQueue, SimEvent
    import queue as _queue

    class SimThreadWS:
        """The `websocket` entry of engineio's threaded async-driver table
        (modelled on engineio.async_drivers._websocket_wsgi)."""

        def __init__(self, handler, server, **kwargs):
            self.app = handler
            self.conn = None

        def __call__(self, environ, start_response):
            self.conn = environ['sim.conn']
            return self.app(self)

        def wait(self):
            item = self.conn.to_server.get()
            if item is CLOSED:
                self.conn.to_server.put_nowait(CLOSED)
                return None
            return item

        def send(self, message):
            self.conn.send_blocking('s2c', message, kernel.sleep)

        def close(self):
            self.conn.close('server')

    return {
        'thread': kernel.thread_factory,
        'queue': lambda *a, **k: SimQueue(kernel, *a, **k),
        'queue_empty': _queue.Empty,
        'event': lambda *a, **k: SimEvent(kernel),
        'websocket': SimThreadWS,
        'sleep': kernel.sleep,
    }


# --------------------------------------------------------------------------
# thread world: client side -- a stand-in for the websocket-client package
# --------------------------------------------------------------------------
class WebSocketException(Exception):
    pass


class WebSocketTimeoutException(WebSocketException):
    pass


class WebSocketConnectionClosedException(WebSocketException):
    pass


class FakeWebSocketModule:
    """Set as the module global `engineio.client.websocket`."""
    WebSocketException = WebSocketException
    WebSocketTimeoutException = WebSocketTimeoutException
    WebSocketConnectionClosedException = WebSocketConnectionClosedException

    def __init__(self, net, kernel):
        self.net = net
        self.kernel = kernel

    def create_connection(self, url, **opts):
        from .threads import SimQueue
        name = _server_of(url)
        try:
            conn = self.net.open(name, info={'url': _strip_t(url),
                                             'header': dict(
                                                 opts.get('header') or {})})
        except Refused:
            raise ConnectionRefusedError('refused')
        return FakeWS(conn, self.kernel, opts.get('timeout'))


class FakeWS:
    def __init__(self, conn, kernel, timeout):
        from .threads import SimQueue
        self.conn = conn
        self.kernel = kernel
        self.timeout = timeout
        self.inbox = SimQueue(kernel)
        self.connected = True
        conn.client_sink = self.inbox.put_nowait

    def settimeout(self, t):
        self.timeout = t

    def recv(self):
        import queue as _queue
        try:
            item = self.inbox.get(timeout=self.timeout)
        except _queue.Empty:
            raise WebSocketTimeoutException()
        if item is CLOSED:
            self.connected = False
            self.inbox.put_nowait(CLOSED)
            raise WebSocketConnectionClosedException()
        return item

    def _send(self, data):
        if not self.connected or self.conn.told['client']:
            raise WebSocketConnectionClosedException()
        try:
            self.conn.send_blocking('c2s', data, self.kernel.sleep)
        except OSError:
            raise WebSocketConnectionClosedException()

    def send(self, data):
        self._send(data)

    def send_binary(self, data):
        self._send(data)

    def close(self):
        self.connected = False
        self.conn.close('client')
        # a local close wakes the local reader
        self.inbox.put_nowait(CLOSED)


def _server_of(url):
    import urllib.parse
    return urllib.parse.urlparse(url).netloc


def _strip_t(url):
    i = url.find('&t=')
    return url if i == -1 else url[:i]


# --------------------------------------------------------------------------
# asyncio world: client side -- a stand-in for aiohttp
# --------------------------------------------------------------------------
class _WSMsgType:
    TEXT = 'text'
    BINARY = 'binary'
    CLOSE = 'close'
    CLOSING = 'closing'
    CLOSED = 'closed'


class _WSMsg:
    __slots__ = ('type', 'data', 'extra')

    def __init__(self, type, data):
        self.type = type
        self.data = data
        self.extra = None


class _ClientExceptions:
    class ClientError(Exception):
        pass

    class WSServerHandshakeError(ClientError):
        pass

    class ClientConnectionError(ClientError):
        pass

    class ServerConnectionError(ClientConnectionError):
        pass

    class ServerDisconnectedError(ServerConnectionError):
        pass


class FakeAiohttp:
    """Set as the module global `engineio.async_client.aiohttp`."""
    WSMsgType = _WSMsgType
    client_exceptions = _ClientExceptions
    ClientError = _ClientExceptions.ClientError

    class ClientWSTimeout:
        def __init__(self, **kw):
            self.kw = kw

    class ClientTimeout:
        def __init__(self, **kw):
            self.kw = kw

    def __init__(self, net):
        self.net = net

    def ClientSession(self, *a, **k):
        return FakeAioSession(self.net)


class FakeAioSession:
    closed = False

    def __init__(self, net):
        self.net = net
        self.cookie_jar = type('Jar', (), {
            'update_cookies': lambda self, c: None})()

    async def ws_connect(self, url, **opts):
        name = _server_of(url)
        lat = self.net.latency()
        if lat:
            await asyncio.sleep(lat)
        try:
            conn = self.net.open(name, info={'url': _strip_t(url),
                                             'header': dict(
                                                 opts.get('headers') or {})})
        except Refused:
            raise _ClientExceptions.ClientConnectionError('refused')
        return FakeAioWS(conn)

    async def close(self):
        self.closed = True


class FakeAioWS:
    def __init__(self, conn):
        self.conn = conn
        self.inbox = asyncio.Queue()
        self.closed = False
        conn.client_sink = self.inbox.put_nowait

    async def receive(self):
        item = await self.inbox.get()
        if item is CLOSED:
            self.closed = True
            self.inbox.put_nowait(CLOSED)
            return _WSMsg(_WSMsgType.CLOSED, None)
        if isinstance(item, (bytes, bytearray)):
            return _WSMsg(_WSMsgType.BINARY, bytes(item))
        return _WSMsg(_WSMsgType.TEXT, item)

    async def _send(self, data):
        if self.closed or self.conn.told['client']:
            raise _ClientExceptions.ServerDisconnectedError()
        try:
            await self.conn.send('c2s', data)
        except OSError:
            raise _ClientExceptions.ServerDisconnectedError()

    async def send_str(self, data):
        await self._send(data)

    async def send_bytes(self, data):
        await self._send(data)

    async def close(self):
        self.closed = True
        self.conn.close('client')
        self.inbox.put_nowait(CLOSED)
