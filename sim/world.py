"""World: everything one simulated run instantiates, behind one interface
that is the same for the asyncio world (SimLoop) and the thread world
(SimKernel), so that a check's workload and oracle are written once.

The driver (the check) lives outside the simulated system: it starts
operations (`api`, `peer.send`, `sever`, ...), lets the system run
(`settle`, `advance`) and reads the Recorder."""
import asyncio
import inspect

import engineio
import socketio

from . import sio
from .aloop import SimLoop, EPOCH
from .choices import Choices, ChoiceRandom, derive
from .net import Net, CLOSED, SimAsyncWS, make_async_driver, \
    make_thread_driver, ws_environ, Refused, FakeWebSocketModule, \
    FakeAiohttp, FakeAioSession
from .threads import SimKernel, SimQueue, SimEvent, ThreadingShim

# modules of the threaded implementation: a `threading` primitive created in
# them (none is today) goes through the kernel
_SIO_SYNC_MODULES = ('server', 'base_server', 'manager', 'base_manager',
                     'pubsub_manager', 'redis_manager', 'client',
                     'base_client', 'simple_client', 'namespace',
                     'base_namespace', 'packet', 'msgpack_packet')
from .rec import Recorder, make_logger


# --------------------------------------------------------------------------
# deterministic entropy and clock stand-ins, patched into module globals
# --------------------------------------------------------------------------
class DetSecrets:
    def __init__(self, seed):
        import random
        self.r = random.Random(derive(seed, 'secrets'))

    def token_bytes(self, n=32):
        return bytes(self.r.randrange(256) for _ in range(n))

    def token_hex(self, n=32):
        return self.token_bytes(n).hex()


class DetUUID:
    def __init__(self, seed):
        import random
        self.r = random.Random(derive(seed, 'uuid'))

    def uuid4(self):
        import uuid
        return uuid.UUID(int=self.r.getrandbits(128), version=4)


def make_fake_datetime(clock):
    """Stand-in for the `datetime` class seen by the admin modules: now() and
    fromtimestamp() read the virtual clock."""
    import datetime as _dt

    class FakeDateTime(_dt.datetime):
        @classmethod
        def now(cls, tz=None):
            return _dt.datetime.fromtimestamp(clock(), tz)

        @classmethod
        def utcnow(cls):
            return _dt.datetime.utcfromtimestamp(clock())
    return FakeDateTime


class FakeTime:
    def __init__(self, clock, sleeper=None):
        self._clock = clock
        self._sleeper = sleeper

    def time(self):
        return self._clock()

    def monotonic(self):
        return self._clock()

    def sleep(self, s):
        if self._sleeper is None:
            raise RuntimeError('real sleep requested inside the simulation')
        return self._sleeper(s)


_PATCH_TIME = ['engineio.base_socket', 'engineio.socket',
               'engineio.async_socket', 'engineio.client',
               'engineio.base_client', 'socketio.admin',
               'socketio.async_admin', 'socketio.redis_manager']


class Patches:
    """Module-global seams, set for one run and restored afterwards."""

    def __init__(self):
        self.saved = []

    def set(self, modname, attr, value):
        import importlib
        try:
            mod = importlib.import_module(modname)
        except Exception:
            return
        missing = object()
        old = getattr(mod, attr, missing)
        self.saved.append((mod, attr, old, missing))
        setattr(mod, attr, value)

    def restore(self):
        for mod, attr, old, missing in reversed(self.saved):
            if old is missing:
                try:
                    delattr(mod, attr)
                except AttributeError:
                    pass
            else:
                setattr(mod, attr, old)
        self.saved = []


_SOCKET_ORIG = {}


def _snapshot_socket_classes():
    import engineio.socket
    import engineio.async_socket
    for cls in (engineio.socket.Socket, engineio.async_socket.AsyncSocket):
        _SOCKET_ORIG[cls] = {k: cls.__dict__[k] for k in (
            'handle_post_request', '_websocket_handler', '_send_ping')}


_snapshot_socket_classes()


def _restore_socket_classes():
    """admin instrumentation monkey-patches the engine.io socket classes
    process-wide; undo it between runs."""
    for cls, orig in _SOCKET_ORIG.items():
        for k, val in orig.items():
            if cls.__dict__.get(k) is not val:
                setattr(cls, k, val)
        for k in [k for k in list(cls.__dict__) if k.startswith(
                '_Instrumented')]:
            delattr(cls, k)


def reset_process_globals():
    """Registries that outlive a client or server object."""
    _restore_socket_classes()
    import engineio.base_client
    import socketio.base_client
    engineio.base_client.connected_clients[:] = []
    socketio.base_client.reconnecting_clients[:] = []
    for modname in ('engineio.async_server', 'engineio.async_client',
                    'socketio.async_server'):
        import importlib
        m = importlib.import_module(modname)
        h = getattr(m, 'task_reference_holder', None)
        if h is not None:
            h.clear()
    import socketio.packet
    import engineio.packet
    import engineio.json
    socketio.packet.Packet.json = engineio.json
    engineio.packet.Packet.json = engineio.json


# --------------------------------------------------------------------------
# handler plans
# --------------------------------------------------------------------------
def clean(v):
    """Make recorded arguments printable and comparable: the environ dict is
    replaced by a marker."""
    if isinstance(v, dict):
        if 'sim.conn' in v:
            return '<environ>'
        return {k: clean(x) for k, x in v.items()}
    if isinstance(v, tuple):
        return tuple(clean(x) for x in v)
    if isinstance(v, list):
        return [clean(x) for x in v]
    return v


def exc_site(e):
    """Innermost function an exception was raised in (for signatures)."""
    import traceback
    try:
        tb = traceback.extract_tb(e.__traceback__)
        return tb[-1].name if tb else '?'
    except Exception:
        return '?'


class OpHandle:
    def __init__(self, label):
        self.label = label
        self.done = False
        self.result = None
        self.exc = None

    @property
    def site(self):
        return exc_site(self.exc) if self.exc is not None else None

    def __repr__(self):
        return 'Op(%s done=%s result=%r exc=%r)' % (
            self.label, self.done, self.result, self.exc)


class PeerBase:
    """A wire peer: speaks engine.io over the pipe and sends whatever
    Socket.IO frames the workload wants."""

    def __init__(self, world, idx, server):
        self.world = world
        self.idx = idx
        self.server_name = server
        self.conn = None
        self.eio_sid = None
        self.auto_pong = True
        self.rx = []           # assembled Socket.IO packets: dict(seq, pkt)
        self.rx_raw = []
        self.eio_closed = False    # engine.io CLOSE seen
        self.transport_closed = False
        self.asm = sio.Assembler(msgpack=world.msgpack)
        self.pings = 0

    # -- incoming --------------------------------------------------------
    def _on_raw(self, data):
        rec = self.world.rec
        if data is CLOSED:
            self.transport_closed = True
            rec.add('peer_closed', peer=self.idx)
            return
        self.rx_raw.append(data)
        if isinstance(data, (bytes, bytearray)):
            self._on_msg(bytes(data))
            return
        t = data[:1]
        if t == '0':
            import json
            self.eio_sid = json.loads(data[1:])['sid']
            rec.add('peer_open', peer=self.idx, eio_sid=self.eio_sid)
        elif t == '2':
            self.pings += 1
            if self.auto_pong:
                self._post('3' + data[1:])
        elif t == '4':
            self._on_msg(data[1:])
        elif t == 'b':
            import base64
            self._on_msg(base64.b64decode(data[1:]))
        elif t == '1':
            self.eio_closed = True
            rec.add('peer_eio_close', peer=self.idx)
        elif t == '6':
            pass
        else:
            rec.add('peer_rx_unknown', peer=self.idx, data=data[:50])

    def _on_msg(self, frame):
        p = self.asm.feed(frame)
        if p is None:
            return
        ev = self.world.rec.add('rx', peer=self.idx, pkt=p.key())
        self.rx.append({'seq': ev['seq'], 'pkt': p})

    # -- outgoing --------------------------------------------------------
    def send_frames(self, frames):
        """frames: Socket.IO frames (str text / bytes attachment)."""
        for f in frames:
            if isinstance(f, str) and not self.world.msgpack:
                self._post('4' + f)
            else:
                self._post(f)

    def send_pkt(self, type, nsp='/', id=None, data=None):
        if self.world.msgpack:
            frames = sio.encode_msgpack(type, nsp, id, data)
        else:
            frames = sio.encode(type, nsp, id, data)
        self.world.rec.add('tx', peer=self.idx,
                           pkt=sio.Pkt(type, nsp, id, data).key())
        self.send_frames(frames)

    def send_eio(self, raw):
        self._post(raw)

    def since(self, seq):
        return [r['pkt'] for r in self.rx if r['seq'] > seq]

    # -- several packets in ONE engine.io polling payload --------------------
    # (an HTTP POST to the session: engine.io handles the packets of a
    # payload one after the other without returning to the event loop in
    # between - on the websocket transport every frame is a loop iteration
    # of its own.  engine.io accepts a POST for any live session.)
    def _payload_body(self, frames):
        import base64
        parts = []
        for f in frames:
            if isinstance(f, (bytes, bytearray)):
                parts.append('b' + base64.b64encode(bytes(f)).decode('ascii'))
            else:
                parts.append('4' + f)
        return '\x1e'.join(parts).encode('utf-8')

    def _post_environ(self, body, wsgi_input):
        return {'REQUEST_METHOD': 'POST', 'PATH_INFO': '/socket.io/',
                'QUERY_STRING': 'transport=polling&EIO=4&sid=%s'
                % self.eio_sid, 'CONTENT_LENGTH': str(len(body)),
                'SERVER_NAME': 'sim', 'wsgi.input': wsgi_input}

    def post_pkts(self, pkts):
        """pkts: list of (type, nsp, id, data) sent in one payload."""
        frames = []
        for type, nsp, id, data in pkts:
            if self.world.msgpack:
                frames += sio.encode_msgpack(type, nsp, id, data)
            else:
                frames += sio.encode(type, nsp, id, data)
            self.world.rec.add('tx', peer=self.idx,
                               pkt=sio.Pkt(type, nsp, id, data).key())
        self.post_payload(frames)


class _AsyncBody:
    def __init__(self, body):
        self.body = body

    async def read(self, n=-1):
        return self.body


class _SyncBody:
    def __init__(self, body):
        self.body = body

    def read(self, n=-1):
        return self.body


LAST_RECS = []     # recorders of closed worlds (differential checks read it)


class World:
    mode = None

    def _common_init(self, seed, choices_replay=None, msgpack=False):
        self.seed = seed
        self.choices = Choices(seed, replay=choices_replay)
        self.msgpack = msgpack
        self.servers = {}
        self.peers = []
        self.patches = Patches()
        self.closed = False

    def _patch_admin(self, clock):
        fdt = make_fake_datetime(clock)
        for m in ('socketio.admin', 'socketio.async_admin'):
            self.patches.set(m, 'datetime', fdt)
            self.patches.set(m, 'PID', 4242)
            self.patches.set(m, 'HOSTNAME', 'simhost')

    # registry helpers shared by both worlds -----------------------------------
    def handler_label(self, server, kind, ns, event):
        return (server, kind, ns, event)


# --------------------------------------------------------------------------
# asyncio world
# --------------------------------------------------------------------------
class _SimEioAsyncServer(engineio.AsyncServer):
    def __init__(self, **kw):
        kw.setdefault('async_mode', 'asgi')
        super().__init__(**kw)
        self._async = make_async_driver()


class _SimAsyncServer(socketio.AsyncServer):
    def _engineio_server_class(self):
        return _SimEioAsyncServer


class APeer(PeerBase):
    def open(self, extra_env=None):
        conn = self.world.net.open(self.server_name)
        self.conn = conn
        conn.client_sink = self._on_raw
        self.transport_closed = False
        self.eio_closed = False
        self.asm = sio.Assembler(msgpack=self.world.msgpack)
        return conn

    def _post(self, data):
        if self.conn is not None:
            self.conn.post('c2s', data)

    def post_payload(self, frames):
        conn = self.conn
        if conn is None or conn.severed or conn.told['client']:
            return
        body = self._payload_body(frames)
        loop = self.world.loop
        eio = self.world.servers[self.server_name].eio
        at = max(conn.last['c2s'], loop.time() + self.world.net.latency())
        conn.last['c2s'] = at
        self.world.rec.count('net.polling_payload')

        async def do_post():
            if conn.severed or conn.told['client']:
                return
            r = await eio.handle_request(
                self._post_environ(body, _AsyncBody(body)))
            self.world.rec.add('post_done', peer=self.idx,
                               status=r[0] if isinstance(r, tuple) else r)
        loop.call_at(at, lambda: loop.create_task(do_post()))

    def sever(self, tell_server=0.0):
        if self.conn is not None:
            self.conn.sever(tell_server=tell_server, tell_client=0.0)

    def close(self):
        """Orderly transport close by the client."""
        if self.conn is not None:
            self.conn.close('client')


class AsyncWorld(World):
    mode = 'async'

    def __init__(self, seed=0, choices_replay=None, msgpack=False,
                 lat=(0.0,), bp=(0.0,), send_pauses=None):
        self._common_init(seed, choices_replay, msgpack)
        self.send_pauses = tuple(send_pauses) if send_pauses else None
        reset_process_globals()
        self.loop = SimLoop()
        self.rec = Recorder(self.loop.time)
        self.net = Net(self.loop, self.choices, self.rec, lat=lat, bp=bp)
        ft = FakeTime(self.loop.time)
        for m in _PATCH_TIME:
            self.patches.set(m, 'time', ft)
        self.patches.set('engineio.base_server', 'secrets',
                         DetSecrets(seed))
        du = DetUUID(seed)
        self.patches.set('socketio.pubsub_manager', 'uuid', du)
        self.patches.set('socketio.async_pubsub_manager', 'uuid', du)
        cr = ChoiceRandom(self.choices)
        self.patches.set('socketio.client', 'random', cr)
        self.patches.set('socketio.async_client', 'random', cr)
        self.patches.set('engineio.async_client', 'aiohttp',
                         FakeAiohttp(self.net))
        self._patch_admin(self.loop.time)
        self.ops = []
        self.clients = {}

    def now(self):
        return self.loop.time()

    # -- servers -----------------------------------------------------------
    def add_server(self, name='s', manager=None, server_cls=None, **cfg):
        cfg.setdefault('monitor_clients', False)
        cfg.setdefault('ping_interval', 1000)
        cfg.setdefault('ping_timeout', 500)
        if self.msgpack:
            cfg.setdefault('serializer', 'msgpack')
        cfg['logger'] = make_logger(self.rec, 'sio.' + name)
        cfg['engineio_logger'] = make_logger(self.rec, 'eio.' + name)
        if manager is not None:
            cfg['client_manager'] = manager
        srv = (server_cls or _SimAsyncServer)(**cfg)
        if self.send_pauses:
            # buggify: the boundary socketio -> engine.io is a suspension
            # point of seeded length (a coroutine may always suspend;
            # back-pressure).  Mostly zero.
            # Sends to one transport complete in the order they were
            # issued (a back-pressured transport queues them): engine.io's
            # own send never reorders, and python-socketio relies on that
            # (the parts of a binary packet are sent by separate tasks).
            busy = {}
            for meth in ('send', 'send_packet'):
                orig = getattr(srv.eio, meth)

                async def boundary(*a, _orig=orig, **kw):
                    d = self.choices.pick('sched', self.send_pauses, 'sendp')
                    key = a[0] if a else None
                    now = self.loop.time()
                    at = max(busy.get(key, 0.0), now + d)
                    if at > now:
                        busy[key] = at
                        self.rec.count('net.send_suspended')
                        f = self.loop.create_future()
                        h = self.loop.call_at(
                            at, lambda: f.done() or f.set_result(None))
                        try:
                            await f
                        finally:
                            h.cancel()
                    return await _orig(*a, **kw)
                setattr(srv.eio, meth, boundary)
        self.servers[name] = srv
        self.register_acceptor(name, srv)
        return srv

    def register_acceptor(self, name, srv):
        def acceptor(conn, srv=srv):
            conn.server_task = self.loop.create_task(
                srv.eio.handle_request(ws_environ(
                    conn, (conn.info or {}).get('env'))))
            conn.server_obj = srv
        self.net.register(name, acceptor)

    def add_peer(self, server='s', transport='websocket'):
        if transport == 'polling':
            from .poll import APollPeer

            class _P(APollPeer, APeer):
                pass
            p = _P(self, len(self.peers), server)
        else:
            p = APeer(self, len(self.peers), server)
        self.peers.append(p)
        return p

    # -- handlers ----------------------------------------------------------
    def make_handler(self, label, plan_fn, coroutine=True):
        """plan_fn(label, args) -> list of steps, evaluated at invocation:
        ('pause', seconds) | ('ret', value) | ('raise', exc) |
        ('do', callable returning value-or-awaitable)."""
        rec = self.rec

        if coroutine:
            async def handler(*args):
                ev = rec.add('h_enter', label=label, args=clean(args))
                try:
                    for step in plan_fn(label, args, ev):
                        k = step[0]
                        if k == 'pause':
                            if step[1] > 0:
                                await asyncio.sleep(step[1])
                        elif k == 'ret':
                            rec.add('h_exit', label=label, enter=ev['seq'])
                            return step[1]
                        elif k == 'raise':
                            rec.add('h_raise', label=label, enter=ev['seq'],
                                    exc=repr(step[1]))
                            raise step[1]
                        elif k == 'do':
                            r = step[1]()
                            if inspect.isawaitable(r):
                                await r
                    rec.add('h_exit', label=label, enter=ev['seq'])
                except asyncio.CancelledError:
                    rec.add('h_cancelled', label=label, enter=ev['seq'])
                    raise
        else:
            def handler(*args):
                ev = rec.add('h_enter', label=label, args=clean(args))
                for step in plan_fn(label, args, ev):
                    k = step[0]
                    if k == 'ret':
                        rec.add('h_exit', label=label, enter=ev['seq'])
                        return step[1]
                    elif k == 'raise':
                        rec.add('h_raise', label=label, enter=ev['seq'],
                                exc=repr(step[1]))
                        raise step[1]
                    elif k == 'do':
                        r = step[1]()
                        if inspect.isawaitable(r):
                            self.loop.create_task(r)
                rec.add('h_exit', label=label, enter=ev['seq'])
        return handler

    def make_namespace(self, ns, events, plan_fn, server='s', coroutine=True,
                       kind='class', base=None):
        """A class-based namespace object whose on_<event> methods are
        generated handlers."""
        attrs = {}
        for event in events:
            label = (server, kind, ns, event)
            h = self.make_handler(label, plan_fn, coroutine)
            if coroutine:
                def mk(h):
                    async def m(self_, *args):
                        return await h(*args)
                    return m
            else:
                def mk(h):
                    def m(self_, *args):
                        return h(*args)
                    return m
            attrs['on_' + event] = mk(h)
        cls = type('GenNamespace', (base or socketio.AsyncNamespace,), attrs)
        return cls(ns)

    # -- operations --------------------------------------------------------
    def api(self, server, method, *args, **kw):
        srv = self.servers[server] if isinstance(server, str) else server
        return self.call(getattr(srv, method), *args,
                         _label=(method,), **kw)

    def call(self, fn, *args, _label=None, **kw):
        op = OpHandle(_label or getattr(fn, '__name__', '?'))
        rec = self.rec

        async def run():
            ev = rec.add('op_start', op=op.label)
            try:
                r = fn(*args, **kw)
                if inspect.isawaitable(r):
                    r = await r
                op.result = r
                rec.add('op_end', op=op.label, start=ev['seq'], result=r)
            except asyncio.CancelledError:
                raise
            except BaseException as e:   # noqa
                op.exc = e
                rec.add('op_end', op=op.label, start=ev['seq'],
                        exc='%s: %s' % (type(e).__name__, e))
            op.done = True
        op.task = self.loop.create_task(run())
        self.ops.append(op)
        return op

    def after(self, delay, fn, *args):
        """Run a plain callable (or start a coroutine function) after a
        virtual delay."""
        def fire():
            r = fn(*args)
            if inspect.isawaitable(r):
                self.loop.create_task(r)
        if delay <= 0:
            self.loop.call_soon(fire)
        else:
            self.loop.call_later(delay, fire)

    def settle(self, horizon=0.5, max_steps=200000):
        return self.loop.run_idle(horizon=horizon, max_steps=max_steps)

    def advance(self, dt, max_steps=400000):
        return self.loop.advance(dt, max_steps=max_steps)

    def close(self):
        if self.closed:
            return
        self.closed = True
        self.rec.final_len = len(self.rec.events)
        LAST_RECS.append(self.rec)
        del LAST_RECS[:-4]
        try:
            self.loop.shutdown_sim()
        finally:
            self.patches.restore()
            reset_process_globals()


# --------------------------------------------------------------------------
# real clients, asyncio world
# --------------------------------------------------------------------------
class _SimAsyncClient(socketio.AsyncClient):
    pass


def add_async_client(world, name='c', client_cls=None, **cfg):
    cfg.setdefault('handle_sigint', False)
    if world.msgpack:
        cfg.setdefault('serializer', 'msgpack')
    cfg['logger'] = make_logger(world.rec, 'sioc.' + name)
    cfg['engineio_logger'] = make_logger(world.rec, 'eioc.' + name)
    cfg['http_session'] = FakeAioSession(world.net)
    c = (client_cls or _SimAsyncClient)(**cfg)
    world.clients[name] = c
    return c


AsyncWorld.add_client = add_async_client


# --------------------------------------------------------------------------
# thread world
# --------------------------------------------------------------------------
class TPeer(PeerBase):
    def open(self, extra_env=None):
        conn = self.world.net.open(self.server_name)
        self.conn = conn
        conn.client_sink = self._on_raw
        self.transport_closed = False
        self.eio_closed = False
        self.asm = sio.Assembler(msgpack=self.world.msgpack)
        return conn

    def _post(self, data):
        if self.conn is not None:
            self.conn.post('c2s', data)

    def post_payload(self, frames):
        conn = self.conn
        if conn is None or conn.severed or conn.told['client']:
            return
        body = self._payload_body(frames)
        k = self.world.kernel
        eio = self.world.servers[self.server_name].eio
        at = max(conn.last['c2s'], k.now + self.world.net.latency())
        conn.last['c2s'] = at
        self.world.rec.count('net.polling_payload')

        def do_post():
            if conn.severed or conn.told['client']:
                return
            status = []
            eio.handle_request(self._post_environ(body, _SyncBody(body)),
                               lambda st, headers: status.append(st))
            self.world.rec.add('post_done', peer=self.idx,
                               status=status[:1])
        k.call_at(at, lambda: k.spawn(do_post))

    def sever(self, tell_server=0.0):
        if self.conn is not None:
            self.conn.sever(tell_server=tell_server, tell_client=0.0)

    def close(self):
        if self.conn is not None:
            self.conn.close('client')


class ThreadWorld(World):
    mode = 'thread'

    def __init__(self, seed=0, choices_replay=None, msgpack=False,
                 lat=(0.0,), bp=(0.0,), policy='fifo', pct_depth=2,
                 pct_span=400):
        self._common_init(seed, choices_replay, msgpack)
        reset_process_globals()
        self.kernel = SimKernel(self.choices, policy=policy,
                                pct_depth=pct_depth, pct_span=pct_span)
        k = self.kernel
        self.rec = Recorder(k.time)
        self.net = Net(k, self.choices, self.rec, lat=lat, bp=bp,
                       queue_factory=lambda: SimQueue(k))
        ft = FakeTime(k.time, k.sleep)
        for m in _PATCH_TIME:
            self.patches.set(m, 'time', ft)
        self.patches.set('engineio.base_server', 'secrets',
                         DetSecrets(seed))
        du = DetUUID(seed)
        self.patches.set('socketio.pubsub_manager', 'uuid', du)
        self.patches.set('socketio.async_pubsub_manager', 'uuid', du)
        cr = ChoiceRandom(self.choices)
        self.patches.set('socketio.client', 'random', cr)
        self.patches.set('socketio.async_client', 'random', cr)
        self.patches.set('engineio.client', 'websocket',
                         FakeWebSocketModule(self.net, k))
        self.patches.set('socketio.simple_client', 'Event',
                         lambda: SimEvent(k))
        shim = ThreadingShim(k)
        for m in _SIO_SYNC_MODULES:
            self.patches.set('socketio.' + m, 'threading', shim)
        self._patch_admin(k.time)
        self.driver = make_thread_driver(k)
        self.ops = []
        self.clients = {}

    def now(self):
        return self.kernel.now

    # -- servers -----------------------------------------------------------
    def add_server(self, name='s', manager=None, server_cls=None, **cfg):
        cfg.setdefault('monitor_clients', False)
        cfg.setdefault('ping_interval', 1000)
        cfg.setdefault('ping_timeout', 500)
        cfg.setdefault('async_mode', 'threading')
        if self.msgpack:
            cfg.setdefault('serializer', 'msgpack')
        cfg['logger'] = make_logger(self.rec, 'sio.' + name)
        cfg['engineio_logger'] = make_logger(self.rec, 'eio.' + name)
        if manager is not None:
            cfg['client_manager'] = manager
        srv = (server_cls or socketio.Server)(**cfg)
        srv.eio._async = self.driver
        # the boundary socketio -> engine.io is a pre-emption point (engine.io
        # itself is trusted and not pre-empted inside, see SimKernel)
        k = self.kernel
        for meth in ('send', 'send_packet'):
            orig = getattr(srv.eio, meth)

            def boundary(*a, _orig=orig, **kw):
                k.yield_point('eio.' + meth)
                return _orig(*a, **kw)
            setattr(srv.eio, meth, boundary)
        self.servers[name] = srv
        self.register_acceptor(name, srv)
        return srv

    def register_acceptor(self, name, srv):
        k = self.kernel

        def acceptor(conn, srv=srv):
            def serve():
                srv.eio.handle_request(
                    ws_environ(conn, (conn.info or {}).get('env')),
                    lambda status, headers: None)
            conn.server_task = k.spawn(serve, name='conn%d' % conn.cid)
            conn.server_obj = srv
        self.net.register(name, acceptor)

    def add_peer(self, server='s', transport='websocket'):
        if transport == 'polling':
            from .poll import TPollPeer

            class _P(TPollPeer, TPeer):
                pass
            p = _P(self, len(self.peers), server)
        else:
            p = TPeer(self, len(self.peers), server)
        self.peers.append(p)
        return p

    def add_client(self, name='c', client_cls=None, **cfg):
        k = self.kernel
        base_eio = engineio.Client

        class _SimEioClient(base_eio):
            def start_background_task(self, target, *args, **kwargs):
                return k.spawn(target, *args, **kwargs)

            def sleep(self, seconds=0):
                return k.sleep(seconds)

            def create_queue(self, *args, **kwargs):
                return SimQueue(k)

            def create_event(self, *args, **kwargs):
                return SimEvent(k)

        base = client_cls or socketio.Client

        class _SimClient(base):
            def _engineio_client_class(self):
                return _SimEioClient

        cfg.setdefault('handle_sigint', False)
        if self.msgpack:
            cfg.setdefault('serializer', 'msgpack')
        cfg['logger'] = make_logger(self.rec, 'sioc.' + name)
        cfg['engineio_logger'] = make_logger(self.rec, 'eioc.' + name)
        c = _SimClient(**cfg)
        self.clients[name] = c
        return c

    # -- handlers ----------------------------------------------------------
    def make_handler(self, label, plan_fn, coroutine=False):
        rec = self.rec
        k = self.kernel

        def handler(*args):
            ev = rec.add('h_enter', label=label, args=clean(args))
            k.yield_point('h_enter')
            for step in plan_fn(label, args, ev):
                kind = step[0]
                if kind == 'pause':
                    if step[1] > 0:
                        k.sleep(step[1])
                elif kind == 'ret':
                    rec.add('h_exit', label=label, enter=ev['seq'])
                    return step[1]
                elif kind == 'raise':
                    rec.add('h_raise', label=label, enter=ev['seq'],
                            exc=repr(step[1]))
                    raise step[1]
                elif kind == 'do':
                    step[1]()
            rec.add('h_exit', label=label, enter=ev['seq'])
        return handler

    def make_namespace(self, ns, events, plan_fn, server='s', coroutine=False,
                       kind='class', base=None):
        attrs = {}
        for event in events:
            label = (server, kind, ns, event)
            h = self.make_handler(label, plan_fn)

            def mk(h):
                def m(self_, *args):
                    return h(*args)
                return m
            attrs['on_' + event] = mk(h)
        cls = type('GenNamespace', (base or socketio.Namespace,), attrs)
        return cls(ns)

    # -- operations --------------------------------------------------------
    def api(self, server, method, *args, **kw):
        srv = self.servers[server] if isinstance(server, str) else server
        return self.call(getattr(srv, method), *args,
                         _label=(method,), **kw)

    def call(self, fn, *args, _label=None, **kw):
        op = OpHandle(_label or getattr(fn, '__name__', '?'))
        rec = self.rec

        def run():
            ev = rec.add('op_start', op=op.label)
            try:
                op.result = fn(*args, **kw)
                rec.add('op_end', op=op.label, start=ev['seq'],
                        result=op.result)
            except Exception as e:   # noqa
                op.exc = e
                rec.add('op_end', op=op.label, start=ev['seq'],
                        exc='%s: %s' % (type(e).__name__, e))
            op.done = True
        op.task = self.kernel.spawn(run, name='op%d' % len(self.ops))
        self.ops.append(op)
        return op

    def after(self, delay, fn, *args):
        k = self.kernel
        if delay <= 0:
            k.spawn(fn, *args)
        else:
            k.call_later(delay, lambda: k.spawn(fn, *args))

    def settle(self, horizon=0.5, max_steps=200000):
        return self.kernel.run_idle(horizon=horizon, max_steps=max_steps)

    def advance(self, dt, max_steps=400000):
        return self.kernel.advance(dt, max_steps=max_steps)

    def close(self):
        if self.closed:
            return
        self.closed = True
        self.rec.final_len = len(self.rec.events)
        LAST_RECS.append(self.rec)
        del LAST_RECS[:-4]
        try:
            self.stuck = self.kernel.shutdown()
        finally:
            self.patches.restore()
            reset_process_globals()


def make_world(mode, **kw):
    if mode != 'async':
        kw.pop('send_pauses', None)
    if mode == 'async':
        kw.pop('policy', None)
        kw.pop('pct_depth', None)
        kw.pop('pct_span', None)
        return AsyncWorld(**kw)
    return ThreadWorld(**kw)


# --------------------------------------------------------------------------
# scripted server: a real engine.io server whose Socket.IO layer is the
# workload (it can answer CONNECT / CONNECT_ERROR / DISCONNECT / EVENT / ACK in
# any order, which a real socketio server cannot)
# --------------------------------------------------------------------------
class ScriptedServer:
    def __init__(self, world, name='s', **cfg):
        self.world = world
        self.name = name
        self.rx = []            # dict(seq, eio_sid, pkt)
        self.conns = []         # eio sids in order of arrival
        self.closed = set()
        self.on_packet = None   # callable(eio_sid, Pkt) run inline
        self.asm = {}
        cfg.setdefault('monitor_clients', False)
        cfg.setdefault('ping_interval', 1000)
        cfg.setdefault('ping_timeout', 500)
        cfg['logger'] = make_logger(world.rec, 'eio.' + name)
        cfg['async_handlers'] = False
        if world.mode == 'async':
            self.eio = _SimEioAsyncServer(**cfg)
            self.eio.on('connect', self._a_connect)
            self.eio.on('message', self._a_message)
            self.eio.on('disconnect', self._a_disconnect)
        else:
            cfg.setdefault('async_mode', 'threading')
            self.eio = engineio.Server(**cfg)
            self.eio._async = world.driver
            self.eio.on('connect', self._connect)
            self.eio.on('message', self._message)
            self.eio.on('disconnect', self._disconnect)
        world.servers[name] = self
        world.register_acceptor(name, self)

    # engine.io handlers -----------------------------------------------------
    def _connect(self, eio_sid, environ):
        self.conns.append(eio_sid)
        self.asm[eio_sid] = sio.Assembler(msgpack=self.world.msgpack)
        self.world.rec.add('ss_open', eio_sid=eio_sid)

    def _message(self, eio_sid, data):
        p = self.asm[eio_sid].feed(data)
        if p is None:
            return
        ev = self.world.rec.add('ss_rx', eio_sid=eio_sid, pkt=p.key())
        self.rx.append({'seq': ev['seq'], 'eio_sid': eio_sid, 'pkt': p})
        if self.on_packet is not None:
            return self.on_packet(eio_sid, p)

    def _disconnect(self, eio_sid, reason=None):
        self.closed.add(eio_sid)
        self.world.rec.add('ss_closed', eio_sid=eio_sid, reason=reason)

    async def _a_connect(self, eio_sid, environ):
        self._connect(eio_sid, environ)

    async def _a_message(self, eio_sid, data):
        r = self._message(eio_sid, data)
        if inspect.isawaitable(r):
            await r

    async def _a_disconnect(self, eio_sid, reason=None):
        self._disconnect(eio_sid, reason)

    # driver side --------------------------------------------------------------
    @property
    def current(self):
        return self.conns[-1] if self.conns else None

    def frames_for(self, type, nsp='/', id=None, data=None):
        if self.world.msgpack:
            return sio.encode_msgpack(type, nsp, id, data)
        return sio.encode(type, nsp, id, data)

    def send_frames(self, frames, eio_sid=None):
        """Queue frames for the client; usable from the driver and from
        on_packet callbacks (returns an awaitable in the asyncio world)."""
        eio_sid = eio_sid or self.current
        w = self.world
        if w.mode == 'async':
            async def go():
                for f in frames:
                    await self.eio.send(eio_sid, f)
            if asyncio.events._get_running_loop() is not None:
                return w.loop.create_task(go())
            return w.call(go, _label=('ss_send',))
        for f in frames:
            self.eio.send(eio_sid, f)

    def send_pkt(self, type, nsp='/', id=None, data=None, eio_sid=None):
        self.world.rec.add('ss_tx', pkt=sio.Pkt(type, nsp, id, data).key())
        return self.send_frames(self.frames_for(type, nsp, id, data), eio_sid)

    def close_transport(self, eio_sid=None):
        """engine.io level close by the server (sends CLOSE)."""
        eio_sid = eio_sid or self.current
        return self.world.call(self.eio.disconnect, eio_sid,
                               _label=('ss_close',))

    def since(self, seq):
        return [r['pkt'] for r in self.rx if r['seq'] > seq]


def _add_scripted(self, name='s', **cfg):
    return ScriptedServer(self, name, **cfg)


AsyncWorld.add_scripted_server = _add_scripted
ThreadWorld.add_scripted_server = _add_scripted
