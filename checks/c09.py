"""C09 - client events and acknowledgements: one handler, one ACK, callback
once.

World: a real client stack (Client under the fifo policy, AsyncClient) against
a scripted server (real engine.io server, scripted Socket.IO layer) on 1-3
namespaces; sync handlers, and for AsyncClient coroutine handlers and
coroutine callbacks that pause."""
from sim import sio
from sim.world import make_world
from sim.choices import derive
from sim.util import (typed_eq, wire_norm, expect_args, gen_value,
                      shape_call_result)
from .common import (V, Registry, gen_registry, install_registry, ret_for,
                     SHAPES, ack_key, pkt_key, multiset_diff, trepr,
                     REAL_CLIENT, STUBS, RESERVED_CLIENT)

PROP = 'C09'
RUNS = {'quick': 5000, 'thorough': 200000}
BUDGET = {'quick': 100, 'thorough': 1500}
RULE = ('one run = one seeded history of server-sent EVENT / BINARY_EVENT / '
        'ACK / BINARY_ACK frames (ids None, 0, any; ACK ids right, repeated, '
        'unknown, outstanding on another namespace) interleaved with client '
        'emits with callbacks and call()s on 1-3 namespaces; non-trivial = a '
        'burst had two or more frames in flight or a wrong ACK id was sent; '
        'distinct = distinct SHA-256 of the event log')
REAL = REAL_CLIENT
ASSUMPTIONS = ['E1: engine.io hands messages to socketio in arrival order '
               '(thread world: fifo policy)', 'E2']
SHRINK_LISTS = ['ops']
NSS = ['/', '/a', '/b']
EVENTS = ['e1', 'e2', 'msg', 'x y']
LATS = [(0.0,), (0.0, 0.001, 0.004)]
PAUSES = (0.0, 0.0, 0.001, 0.003, 0.02)
ACK_PAYLOADS = [[], [1], ['x', {'a': 1}], [None], [[1, 2]], [b'\x00\x01'],
                [{'b': b'zz'}, 2], [False], [0], ['', '']]


def gen(rng, tier):
    mode = rng.choice(['async', 'async', 'thread'])
    nss = NSS[:rng.randrange(1, 4)]
    reg = gen_registry(rng, nss, EVENTS)
    cfg = {'mode': mode, 'nss': nss, 'lat': rng.randrange(len(LATS)),
           'coroutine': rng.random() < 0.7, 'coro_cb': rng.random() < 0.5,
           'msgpack': rng.random() < 0.15,
           'cb_raise': rng.choice([0, 0, 2, 4]),
           'cb_pause': rng.random() < 0.5}
    shapes = {ev: rng.choice(SHAPES) for ev in EVENTS + ['other']}
    ops = []
    tok = 0
    n = rng.randrange(4, 12)
    for _ in range(n):
        for _ in range(rng.randrange(1, 5)):
            tok += 1
            ns = rng.choice(nss)
            k = rng.random()
            if k < 0.45:
                extra = [gen_value(rng, 2) for _ in range(rng.randrange(0, 3))]
                idk = rng.random()
                id_ = None if idk < 0.3 else rng.choice(
                    [0, 0, 1, 2, 7, 99, 2**31, 10**20, rng.randrange(1000)])
                ops.append(['sev', ns, rng.choice(EVENTS + ['other', '*']),
                            extra, id_, 'T%d' % tok])
            elif k < 0.62:
                ops.append(['emit_cb', ns, 'G%d' % tok])
            elif k < 0.70:
                ops.append(['call', ns, 'G%d' % tok, rng.choice([1.0, 3.0])])
            elif k < 0.93:
                ik = rng.random()
                idspec = ['right'] if ik < 0.5 else ['used'] if ik < 0.62 \
                    else ['never', rng.choice([0, 0, 500, 10**15, 10**40])] \
                    if ik < 0.85 else ['other_ns']
                ops.append(['sack', ns, idspec,
                            rng.randrange(len(ACK_PAYLOADS))])
            else:
                ops.append(['adv', rng.choice([0.5, 1.5, 4.0])])
        ops.append(['settle'])
    if len(nss) > 1 and rng.random() < 0.35:
        # the server ends ONE of the client's namespaces in mid-history:
        # what is outstanding on the others is not touched by that
        ops.insert(rng.randrange(len(ops) // 3, len(ops) + 1),
                   ['sdisc_ns', rng.choice(nss)])
    ops.append(['adv', 5.0])
    return {'cfg': cfg, 'registry': reg, 'shapes': shapes, 'ops': ops}


def sample(case):
    return {'cfg': case['cfg'], 'registry': case['registry'],
            'ops': case['ops'][:12]}


def run(case):
    cfg = case['cfg']
    w = make_world(cfg['mode'], seed=case['seed'],
                   choices_replay=case.get('choices'), lat=LATS[cfg['lat']],
                   msgpack=cfg['msgpack'], policy='fifo')
    try:
        return _run(case, cfg, w)
    finally:
        w.close()


def _run(case, cfg, w):
    v = V(PROP)
    msgpack = cfg['msgpack']
    reg = Registry(case['registry'], reserved=RESERVED_CLIENT)
    shapes = case['shapes']
    ss = w.add_scripted_server('s')

    def on_packet(eio_sid, p):
        if p.type == sio.CONNECT:
            return ss.send_pkt(sio.CONNECT, p.nsp, None,
                               {'sid': 'sid' + p.nsp})
    ss.on_packet = on_packet
    c = w.add_client('c', reconnection=False)

    def plan(label, args, ev):
        event = label[3]
        tok = None
        for a in args:
            if isinstance(a, str) and a.startswith('T') and a[1:].isdigit():
                tok = a
                break
        if tok is None:
            return [('ret', None)]
        name = args[0] if event == '*' else event
        shape = shapes.get(name, shapes['other'])
        pause = w.choices.pick('app', PAUSES, 'pause')
        return [('pause', pause), ('ret', ret_for(shape, tok))]
    coroutine = cfg['coroutine'] and w.mode == 'async'
    install_registry(w, c, case['registry'], plan, who='c',
                     coroutine=coroutine, client=True)
    h = w.call(c.connect, 'http://s', transports=['websocket'],
               namespaces=list(cfg['nss']), wait_timeout=5)
    w.settle()
    if h.exc is not None or not c.connected:
        return {'harness': 'client failed to connect: %r' % (h.exc,)}
    base = len(ss.rx)
    expect_inv = []
    no_inv = []
    expected_rx = []        # ACKs the server must receive
    outstanding = {}        # ns -> {id: tag}
    used = {}
    issued = {}
    cb_log = []
    expected_cb = {}
    calls = {}
    nontrivial = False
    mark_rx = base

    cb_inv = {}

    def make_cb(tag):
        def maybe_raise():
            n_inv = cb_inv.get(tag, 0)
            cb_inv[tag] = n_inv + 1
            if cfg.get('cb_raise') and (
                    derive(case['seed'], 'cb_raise', repr(tag), n_inv) % 8
                    < cfg['cb_raise'] if cfg.get('raise_by_content') else
                    w.choices.chance('faults', cfg['cb_raise'], 8,
                                     'cb_raise')):
                w.rec.count('fault.callback_raise')
                raise RuntimeError('injected callback failure')
        if cfg['coro_cb'] and w.mode == 'async':
            async def cb(*args):
                import asyncio
                w.rec.add('cb', tag=tag, args=args)
                cb_log.append((tag, list(args)))
                if cfg.get('cb_pause'):
                    # a repeated ACK may arrive while the callback is
                    # suspended: it must still run at most once
                    await asyncio.sleep(w.choices.pick('app', PAUSES,
                                                       'cbpause'))
                maybe_raise()
        else:
            def cb(*args):
                w.rec.add('cb', tag=tag, args=args)
                cb_log.append((tag, list(args)))
                if cfg.get('cb_pause') and w.mode == 'thread':
                    # a slow callback; the client handles every message in
                    # a thread of its own, so a repeated ACK is processed
                    # while this one is still running
                    w.kernel.sleep(w.choices.pick('app', PAUSES, 'cbpause'))
                maybe_raise()
        return cb

    def learn_ids(where):
        nonlocal mark_rx
        for r in ss.rx[mark_rx:]:
            pk = r['pkt']
            if pk.base == sio.EVENT and isinstance(pk.data, list) and \
                    pk.data[:1] == ['q']:
                tag = pk.data[1]
                info = issued.get(tag)
                if info is None or 'id' in info:
                    continue
                if pk.nsp != info['ns']:
                    v.add('event_on_wrong_namespace', (where, pk))
                if pk.id is None:
                    v.add('event_without_id', (where, pk))
                    continue
                if pk.id in outstanding.get(info['ns'], {}):
                    v.add('id_not_unique', '%s: id %r on %s still outstanding'
                          % (where, pk.id, info['ns']))
                info['id'] = pk.id
                outstanding.setdefault(info['ns'], {})[pk.id] = tag
        mark_rx = len(ss.rx)

    burst_n = 0
    gone_ns = set()
    for opi, op in enumerate(case['ops']):
        k = op[0]
        where = 'op%d %s' % (opi, op)
        if k in ('sev', 'emit_cb', 'call', 'sack') and op[1] in gone_ns:
            continue
        if k == 'sdisc_ns':
            ns = op[1]
            w.settle(horizon=0.05)
            learn_ids(where)
            ss.send_pkt(sio.DISCONNECT, ns, None, None)
            w.settle(horizon=0.05)
            gone_ns.add(ns)
            outstanding.pop(ns, None)
            w.rec.count('fault.server_ends_one_namespace')
            nontrivial = True
        elif k == 'settle':
            w.settle(horizon=0.1)
            learn_ids(where)
            if burst_n >= 2:
                nontrivial = True
            burst_n = 0
        elif k == 'adv':
            w.advance(op[1])
            learn_ids(where)
        elif k == 'sev':
            _, ns, event, extra, id_, tok = op
            if msgpack and id_ is not None and id_ >= 2**64:
                id_ = id_ % 2**63
            args = [tok] + list(extra)
            ss.send_pkt(sio.EVENT, ns, id_, [event] + args)
            burst_n += 1
            tgt = reg.resolve(ns, event)
            rec = {'tok': tok, 'ns': ns}
            ret = None
            if tgt is not None and tgt[4]:
                kind, lns, lev, prefix, _ = tgt
                rec['label'] = ('c', kind, lns, lev)
                rec['args'] = tuple(prefix + wire_norm(args))
                expect_inv.append(rec)
                ret = ret_for(shapes.get(event, shapes['other']), tok)
            else:
                no_inv.append(tok)
            if id_ is not None:
                expected_rx.append(ack_key(msgpack, ns, id_,
                                           expect_args(ret)))
        elif k == 'emit_cb':
            _, ns, tag = op
            issued[tag] = {'ns': ns, 'kind': 'emit'}
            hh = w.call(c.emit, 'q', tag, namespace=ns, callback=make_cb(tag))
            hh.where = where
            burst_n += 1
        elif k == 'call':
            _, ns, tag, timeout = op
            issued[tag] = {'ns': ns, 'kind': 'call'}
            hh = w.call(c.call, 'q', tag, namespace=ns, timeout=timeout)
            calls[tag] = {'op': hh, 't0': w.now(), 'timeout': timeout,
                          'acked_at': None, 'args': None}
            burst_n += 1
        elif k == 'sack':
            _, ns, idspec, pi = op
            w.settle(horizon=0.05)
            learn_ids(where)
            payload = ACK_PAYLOADS[pi]
            kind = idspec[0]
            if kind == 'right':
                cands = sorted(outstanding.get(ns, {}))
                if not cands:
                    continue
                id_ = cands[w.choices.draw('app', len(cands), 'which')]
            elif kind == 'used':
                cands = [i for i in used.get(ns, [])
                         if i not in outstanding.get(ns, {})]
                if not cands:
                    continue
                id_ = cands[-1]
            elif kind == 'never':
                id_ = idspec[1]
                if msgpack and id_ >= 2**64:
                    id_ = 2**62
            else:
                cands = sorted({i for n2, d in outstanding.items()
                                if n2 != ns for i in d})
                if not cands:
                    continue
                id_ = cands[0]
            match = id_ in outstanding.get(ns, {})
            if kind != 'right':
                nontrivial = True
            n_cb = len(cb_log)
            n_err = len(w.rec.errors)
            ss.send_pkt(sio.ACK, ns, id_, payload)
            if match and w.choices.chance('app', 1, 3, 'dup_in_flight'):
                # the same ACK again, immediately behind the first
                ss.send_pkt(sio.ACK, ns, id_, payload)
                w.rec.count('fault.duplicate_ack_in_flight')
            w.settle(horizon=0.05)
            fired = cb_log[n_cb:]
            if match:
                tag = outstanding[ns].pop(id_)
                used.setdefault(ns, []).append(id_)
                if issued[tag]['kind'] == 'emit':
                    if [f[0] for f in fired] != [tag]:
                        v.add('callback_not_fired', '%s: ACK id %r for %s '
                              'fired %s' % (where, id_, tag, fired))
                    elif not typed_eq(wire_norm(fired[0][1]),
                                      wire_norm(payload)):
                        v.add('callback_arguments', '%s: got %s want %s'
                              % (where, trepr(fired[0][1]), trepr(payload)))
                    expected_cb[tag] = payload
                else:
                    calls[tag]['acked_at'] = w.now()
                    calls[tag]['args'] = payload
                    if fired:
                        v.add('foreign_callback_fired', (where, fired))
            elif fired:
                v.add('callback_fired_for_wrong_ack', '%s (id %r, %s): fired '
                      '%s' % (where, id_, kind, fired), kind)
            for e in w.rec.errors[n_err:]:
                if match and 'injected callback failure' in (
                        e.get('exc') or ''):
                    continue
                v.add('ack_caused_error', '%s (id %r, %s): %s %s in %s'
                      % (where, id_, kind, e['msg'], e.get('exc'),
                         e.get('site')),
                      '%s@%s' % ((e.get('exc') or '').split(':')[0],
                                 e.get('site')))
            for name, e in getattr(getattr(w, 'kernel', None),
                                   'thread_errors', []):
                pass
    w.settle()
    learn_ids('end')
    # ---- oracle -------------------------------------------------------
    enters = w.rec.of('h_enter')
    by_tok = {}
    for e in enters:
        for a in e['args']:
            if isinstance(a, str) and a.startswith('T') and a[1:].isdigit():
                by_tok.setdefault(a, []).append(e)
                break
    for rec in expect_inv:
        got = by_tok.get(rec['tok'], [])
        if len(got) != 1:
            v.add('invocation_count', 'event %s on %s: expected one '
                  'invocation of %s, got %s'
                  % (rec['tok'], rec['ns'], rec['label'],
                     [e['label'] for e in got]), 'got%d' % min(len(got), 2))
            continue
        e = got[0]
        if tuple(e['label']) != rec['label']:
            v.add('wrong_target', 'event %s: expected %s, ran %s'
                  % (rec['tok'], rec['label'], e['label']))
        elif not typed_eq(tuple(e['args']), rec['args']):
            v.add('wrong_arguments', 'event %s: expected %s got %s'
                  % (rec['tok'], trepr(rec['args']), trepr(e['args'])))
    for tok in no_inv:
        if by_tok.get(tok):
            v.add('invoked_without_target', 'event %s ran %s'
                  % (tok, [e['label'] for e in by_tok[tok]]))
    got = [pkt_key(r['pkt']) for r in ss.rx[base:]
           if r['pkt'].base == sio.ACK]
    missing, surplus = multiset_diff(expected_rx, got)
    if missing:
        v.add('ack_missing', 'server did not receive %s; got %s'
              % (missing[:3], got[:5]))
    if surplus:
        v.add('unexpected_ack', 'server received %s' % (surplus[:3],))
    for tag, cinfo in calls.items():
        hh = cinfo['op']
        if not hh.done:
            v.add('call_never_returned', tag)
            continue
        deadline = cinfo['t0'] + cinfo['timeout']
        if cinfo['acked_at'] is not None and \
                cinfo['acked_at'] < deadline - 1e-3:
            want = shape_call_result(wire_norm(cinfo['args']))
            res = hh.result
            if isinstance(res, tuple):
                res = tuple(wire_norm(list(res)))
            if hh.exc is not None:
                v.add('call_raised_despite_ack', '%s: %r' % (tag, hh.exc),
                      type(hh.exc).__name__)
            elif not typed_eq(res, want):
                v.add('call_result', 'call %s returned %s, acknowledged %s'
                      % (tag, trepr(hh.result), trepr(cinfo['args'])))
        elif cinfo['acked_at'] is None:
            if hh.exc is None:
                v.add('call_returned_without_ack', tag)
            elif type(hh.exc).__name__ != 'TimeoutError':
                v.add('call_wrong_exception', '%s: %r' % (tag, hh.exc),
                      type(hh.exc).__name__)
    seen = {}
    for tag, args in cb_log:
        seen[tag] = seen.get(tag, 0) + 1
    for tag, n in seen.items():
        if n > 1:
            v.add('callback_more_than_once', '%s fired %d times' % (tag, n))
        if tag not in expected_cb:
            v.add('callback_without_matching_ack', tag)
    for o in w.ops:
        if o.done and o.exc is not None and o.label not in ('call',) and \
                getattr(o, 'where', None):
            v.add('emit_raised', '%s raised %r' % (o.where, o.exc),
                  '%s@%s' % (type(o.exc).__name__, o.site))
    for e in w.rec.errors:
        if 'injected callback failure' in (e.get('exc') or ''):
            continue
        v.add('error_logged', '%s %s in %s' % (e['msg'], e.get('exc'),
                                               e.get('site')),
              '%s@%s' % ((e.get('exc') or e['msg']).split(':')[0][:40],
                         e.get('site')))
    if w.mode == 'thread':
        from sim.world import exc_site
        for name, e in w.kernel.thread_errors:
            if 'injected callback failure' in str(e):
                continue
            v.add('thread_raised', '%s: %r in %s' % (name, e, exc_site(e)),
                  '%s@%s' % (type(e).__name__, exc_site(e)))
    return {'violations': v.items, 'digest': w.rec.digest.hex(),
            'nontrivial': nontrivial, 'stats': {
                'faults': {k: n for k, n in w.rec.counters.items()
                           if k.startswith('fault.')},
                'events': len(expect_inv) + len(no_inv),
                'acks_expected': len(expected_rx)},
            'sim_time': w.now() - 1_700_000_000.0,
            'cfg': '%s/%s' % (cfg['mode'], 'msgpack' if msgpack else 'json'),
            'choices': w.choices.dump(), 'log': w.rec.dump_log()}
