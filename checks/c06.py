"""C06 - server-initiated acknowledgements: callback at most once, only for
the right client and id; call() result shaping and timeout in virtual time.

World: one real server (async_handlers=True), 2-3 wire peers, 1-2 namespaces.
Peers answer with ACK / BINARY_ACK frames whose id is right, already used,
never issued (0, huge), outstanding for another peer or on the other
namespace, after seeded delays that may exceed the call() timeout;
disconnects and reconnects in between."""
from sim import sio
from sim.world import make_world
from sim.choices import derive
from sim.util import (typed_eq, wire_norm, shape_call_result, gen_value,
                      contains_bytes)
from .common import V, trepr, REAL_SERVER, STUBS
from .scene import Scene

PROP = 'C06'
RUNS = {'quick': 6000, 'thorough': 200000}
BUDGET = {'quick': 100, 'thorough': 1500}
RULE = ('one run = one seeded history of emits-with-callback / call() to '
        'individual clients interleaved with adversarial ACK frames, '
        'disconnects, reconnects and clock advances; non-trivial = at least '
        'one ACK with a wrong id (used, never issued, other peer, other '
        'namespace) or a call() racing its timeout was executed; distinct = '
        'distinct SHA-256 of the event log')
REAL = REAL_SERVER
ASSUMPTIONS = ['E1', 'E2', 'callbacks on emits to more than one client are '
               'documented as unsupported and not generated']
SHRINK_LISTS = ['ops']

NSS = ['/', '/a']
LATS = [(0.0,), (0.0, 0.001, 0.004)]
ACK_PAYLOADS = [[], [1], ['x', {'a': 1}], [None], [[1, 2]], [b'\x00\x01'],
                [{'b': b'zz'}, 2], [False], [0], ['', '']]


def gen(rng, tier):
    mode = rng.choice(['async', 'thread'])
    npeers = rng.randrange(2, 4)
    nss = NSS[:rng.randrange(1, 3)]
    cfg = {'mode': mode, 'nss': nss, 'lat': rng.randrange(len(LATS)),
           'coro_cb': rng.random() < 0.5,
           'cb_raise': rng.choice([0, 0, 2, 4]),    # out of 8
           # coroutine callbacks that suspend, with the same ACK repeated
           # right behind the first one
           'cb_pause': rng.random() < 0.5,
           # callbacks that use the server again: they emit with another
           # callback to the same client (chained acknowledgements)
           'chain': rng.random() < 0.3,
           # the server uses a message-queue client manager (one host on the
           # bus); emits may then use the local-only form ignore_queue=True
           'pubsub': rng.random() < 0.3}
    ops = []
    for p in range(npeers):
        ops.append(['open', p])
        for ns in nss:
            ops.append(['connect', p, ns])
    tag = 0
    n = rng.randrange(8, 30) if tier == 'quick' else rng.randrange(8, 50)
    for _ in range(n):
        p = rng.randrange(npeers)
        ns = rng.choice(nss)
        k = rng.random()
        if k < 0.28:
            tag += 1
            ops.append(['emit_cb', p, ns, 'G%d' % tag])
        elif k < 0.42:
            tag += 1
            ops.append(['call', p, ns, 'G%d' % tag,
                        rng.choice([1.0, 2.0, 5.0])])
        elif k < 0.80:
            ik = rng.random()
            if ik < 0.45:
                idspec = ['right']
            elif ik < 0.50:
                idspec = ['prev']      # the id just below an outstanding one
            elif ik < 0.55:
                idspec = ['used']
            elif ik < 0.75:
                idspec = ['never', rng.choice([0, 0, 999, 10**15, 10**40,
                                               rng.randrange(50, 60)])]
            elif ik < 0.9:
                idspec = ['other_peer']
            else:
                idspec = ['other_ns']
            ops.append(['ack', p, ns, idspec, rng.randrange(len(ACK_PAYLOADS))])
        elif k < 0.86:
            ops.append(['adv', rng.choice([0.3, 0.8, 1.5, 3.0, 6.0])])
        elif k < 0.90:
            ops.append(['disc', p, ns])
        elif k < 0.93:
            ops.append(['sever', p])
            ops.append(['open', p])
        elif k < 0.97:
            ops.append(['connect', p, ns])
        else:
            ops.append(['sdisc', p, ns])
    if npeers > 1 and rng.random() < 0.3:
        # "follow" rooms: a client sits in the room named after ANOTHER
        # client's session id and then goes away while that client has
        # acknowledgements outstanding
        for _ in range(rng.randrange(1, 3)):
            p, q = rng.sample(range(npeers), 2)
            ns = rng.choice(nss)
            at = rng.randrange(2 * npeers, len(ops) + 1)
            ops.insert(at, ['follow', p, q, ns])
    if rng.random() < 0.3:
        # the application kicks a client that went silent, after its ping
        # has expired but before the reader gave up: engine.io notices
        # inside the send of the DISCONNECT packet and tears the connection
        # down re-entrantly; an ACK of that client is still in flight
        cfg['short_ping'] = True
        p = rng.randrange(npeers)
        ns = rng.choice(nss)
        tag += 1
        at = rng.randrange(len(ops) // 2, len(ops) + 1)
        ops[at:at] = [['emit_cb', p, ns, 'G%d' % tag],
                      ['sdisc_expired', p, ns,
                       rng.randrange(len(ACK_PAYLOADS)),
                       rng.choice(['before', 'after'])],
                      ['open', p]]
    ops.append(['adv', 7.0])
    return {'cfg': cfg, 'ops': ops}


def sample(case):
    return {'cfg': case['cfg'], 'ops': case['ops'][:16]}


def run(case):
    cfg = case['cfg']
    w = make_world(cfg['mode'], seed=case['seed'],
                   choices_replay=case.get('choices'), lat=LATS[cfg['lat']])
    try:
        return _run(case, cfg, w)
    finally:
        w.close()


def _run(case, cfg, w):
    v = V(PROP)
    mkw = {}
    if cfg.get('pubsub'):
        from sim.bus import SimBus, SimPubSubManager, AsyncSimPubSubManager
        bus = SimBus(w, lags=(0.0,))
        mkw['manager'] = (AsyncSimPubSubManager if w.mode == 'async'
                          else SimPubSubManager)(bus, 's')
    if cfg.get('short_ping'):
        mkw.update(ping_interval=5, ping_timeout=3)
    srv = w.add_server('s', async_handlers=True,
                       namespaces=list(cfg['nss']), **mkw)

    iq_n = [0]

    def iq():
        if not cfg.get('pubsub'):
            return {}
        iq_n[0] += 1
        if cfg.get('raise_by_content'):     # (the differential check C14)
            hit = derive(case['seed'], 'igq', iq_n[0]) % 2 == 0
        else:
            hit = w.choices.chance('app', 1, 2, 'igq')
        return {'ignore_queue': True} if hit else {}
    sc = Scene(w)
    outstanding = {}     # sid -> {id: tag}
    used = {}            # sid -> [ids already acknowledged]
    issued = {}          # tag -> dict(sid, id, kind)
    cb_log = []          # (tag, args, seq)
    expected_cb = {}     # tag -> args  (model: the callback must have fired)
    dead_tags = set()    # callbacks outstanding at disconnect: never again
    calls = {}           # tag -> dict(op, t0, timeout, sid)
    nontrivial = False
    stats = {'ack_right': 0, 'ack_used': 0, 'ack_never': 0, 'ack_prev': 0,
             'ack_other_peer': 0, 'ack_other_ns': 0, 'ack_id0': 0,
             'call_timeout_raced': 0}

    cb_inv = {}

    def chain_from(tag):
        """The follow-up emit a chained callback issues."""
        info = issued.get(tag)
        if not cfg.get('chain') or cfg.get('malformed_acks') or \
                info is None or info['kind'] != 'emit' or tag.endswith('c'):
            return None
        t2 = tag + 'c'
        if t2 in issued:
            return None
        issued[t2] = {'sid': info['sid'], 'kind': 'emit', 'p': info['p'],
                      'ns': info['ns'], 'iq': False}
        w.rec.count('app.chained_callback')
        return srv.emit('q', t2, to=info['sid'], namespace=info['ns'],
                        callback=make_cb(t2))

    def make_cb(tag):
        coroutine = cfg['coro_cb'] and w.mode == 'async'
        def maybe_raise():
            # fault: the application's callback fails (at most once is still
            # the rule: a repeated ACK must not run it again)
            n_inv = cb_inv.get(tag, 0)
            cb_inv[tag] = n_inv + 1
            if cfg.get('cb_raise') and (
                    derive(case['seed'], 'cb_raise', repr(tag), n_inv) % 8
                    < cfg['cb_raise'] if cfg.get('raise_by_content') else
                    w.choices.chance('faults', cfg['cb_raise'], 8,
                                     'cb_raise')):
                w.rec.count('fault.callback_raise')
                raise RuntimeError('injected callback failure')
        if coroutine:
            async def cb(*args):
                import asyncio
                ev = w.rec.add('cb', tag=tag, args=args)
                cb_log.append((tag, list(args), ev['seq']))
                if cfg.get('cb_pause') and not cfg.get('malformed_acks'):
                    await asyncio.sleep(w.choices.pick(
                        'app', (0.0, 0.001, 0.003, 0.02), 'cbpause'))
                r = chain_from(tag)
                if r is not None:
                    await r
                maybe_raise()
        else:
            def cb(*args):
                ev = w.rec.add('cb', tag=tag, args=args)
                cb_log.append((tag, list(args), ev['seq']))
                if cfg.get('cb_pause') and not cfg.get('malformed_acks') \
                        and w.mode == 'thread':
                    # a slow callback: the thread that reads the client's
                    # transport is busy in it while a repeated ACK arrives
                    # on another channel
                    w.kernel.sleep(w.choices.pick(
                        'app', (0.0, 0.001, 0.003, 0.02), 'cbpause'))
                r = chain_from(tag)
                if r is not None and w.mode == 'async':
                    w.loop.create_task(r)
                maybe_raise()
        return cb

    def learn_ids(mark, where):
        """Read the ids the server put on the events it just sent."""
        for pe, pk in sc.since(mark):
            if pk.base == sio.EVENT and isinstance(pk.data, list) and \
                    pk.data[:1] == ['q']:
                tag = pk.data[1]
                info = issued.get(tag)
                if info is None or 'id' in info:
                    continue
                if pk.id is None:
                    v.add('event_without_id', (where, pk))
                    continue
                sid = info['sid']
                if pk.id in outstanding.get(sid, {}):
                    v.add('id_not_unique', '%s: id %r issued to sid %s while '
                          'still outstanding for %s'
                          % (where, pk.id, sid, outstanding[sid][pk.id]))
                info['id'] = pk.id
                outstanding.setdefault(sid, {})[pk.id] = tag

    def end_sid(sid):
        for id_, tag in outstanding.pop(sid, {}).items():
            dead_tags.add(tag)
        used.pop(sid, None)

    for opi, op in enumerate(case['ops']):
        k = op[0]
        where = 'op%d %s' % (opi, op)
        if k == 'open':
            if not sc.alive(op[1]):
                sc.open(op[1])
        elif k == 'connect':
            _, p, ns = op
            if sc.alive(p) and not sc.sid(p, ns):
                sc.connect(p, ns)
        elif k == 'emit_cb':
            _, p, ns, tag = op
            sid = sc.sid(p, ns)
            if not sid:
                continue
            kwq = iq()
            issued[tag] = {'sid': sid, 'kind': 'emit', 'p': p, 'ns': ns,
                           'iq': bool(kwq)}
            mark = sc.mark()
            h = w.api('s', 'emit', 'q', tag, to=sid, namespace=ns,
                      callback=make_cb(tag), **kwq)
            w.settle()
            if h.exc is not None:
                v.add('emit_raised', '%s raised %r' % (where, h.exc),
                      '%s@%s' % (type(h.exc).__name__, h.site))
            learn_ids(mark, where)
        elif k == 'call':
            _, p, ns, tag, timeout = op
            sid = sc.sid(p, ns)
            if not sid:
                continue
            kwq = iq()
            issued[tag] = {'sid': sid, 'kind': 'call', 'p': p, 'ns': ns,
                           'iq': bool(kwq)}
            mark = sc.mark()
            h = w.api('s', 'call', 'q', tag, to=sid, namespace=ns,
                      timeout=timeout, **kwq)
            calls[tag] = {'op': h, 't0': w.now(), 'timeout': timeout,
                          'sid': sid, 'acked_at': None, 'args': None}
            w.settle(horizon=0.05)
            learn_ids(mark, where)
        elif k == 'ack':
            _, p, ns, idspec, pi = op
            if not sc.alive(p):
                continue
            sid = sc.sid(p, ns)
            payload = ACK_PAYLOADS[pi]
            kind = idspec[0]
            id_ = None
            if kind == 'right':
                cands = sorted(outstanding.get(sid, {})) if sid else []
                if not cands:
                    continue
                id_ = cands[w.choices.draw('app', len(cands), 'which')]
            elif kind == 'prev':
                cands = sorted(i - 1 for i in outstanding.get(sid, {})
                               if isinstance(i, int) and i > 0) if sid else []
                if not cands:
                    continue
                id_ = cands[-1]
            elif kind == 'used':
                cands = used.get(sid, []) if sid else []
                cands = [c for c in cands
                         if c not in outstanding.get(sid, {})]
                if not cands:
                    continue
                id_ = cands[-1]
            elif kind == 'never':
                id_ = idspec[1]
            elif kind == 'other_peer':
                cands = sorted({i for s, d in outstanding.items() if s != sid
                                for i in d})
                if not cands:
                    continue
                id_ = cands[0]
            elif kind == 'other_ns':
                others = [n for n in cfg['nss'] if n != ns]
                if not others:
                    continue
                osid = sc.sid(p, others[0])
                cands = sorted(outstanding.get(osid, {})) if osid else []
                if not cands:
                    continue
                id_ = cands[0]
            if cfg.get('malformed_acks') and pi % 5 == 0:
                payload = None        # an ACK frame without any payload
            match = sid is not None and id_ in outstanding.get(sid, {})
            if cfg.get('pubsub') and not match and sid is not None and any(
                    isinstance(wid, int) and wid - 1 == id_ and
                    not issued[t_]['iq']
                    for wid, t_ in outstanding.get(sid, {}).items()):
                # a message-queue manager keeps the application's callback of
                # a queue-routed emit under the id just below the one it
                # puts on the wire, in the same per-client table: an ACK
                # bearing that id is not "an id never issued" to the manager
                # (observed, not claimed: DESIGN B.2).  Only the local-only
                # form (ignore_queue=True) has no such entry.
                continue
            if kind != 'right' or id_ == 0:
                nontrivial = True
            stats['ack_' + kind] += 1
            if id_ == 0:
                stats['ack_id0'] += 1
            n_cb = len(cb_log)
            n_err = len(w.rec.errors)
            sc.peers[p].send_pkt(sio.ACK, ns, id_, payload)
            ack_mark = sc.mark()
            if match and cfg.get('cb_pause') and \
                    not cfg.get('malformed_acks') and \
                    not contains_bytes(payload) and \
                    w.choices.chance('app', 1, 3, 'dup_in_flight'):
                # the same ACK again, on a second channel (an HTTP POST to
                # the session: engine.io handles it in a task of its own,
                # concurrently with the first one's suspended callback)
                sc.peers[p].post_pkts([(sio.ACK, ns, id_, payload)])
                w.rec.count('fault.duplicate_ack_in_flight')
            w.settle(horizon=0.05)
            learn_ids(ack_mark, where)       # ids of chained emits
            fired = cb_log[n_cb:]
            if match and payload is None:
                # malformed input (outside C06's domain, used by the
                # differential check C14 only): whatever happens, the entry
                # is consumed; no claim here
                tag = outstanding[sid].pop(id_)
                used.setdefault(sid, []).append(id_)
                dead_tags.add(tag)
                expected_cb[tag] = [f[1] for f in fired][0] if fired else []
                continue
            if match:
                tag = outstanding[sid].pop(id_)
                used.setdefault(sid, []).append(id_)
                info = issued[tag]
                if info['kind'] == 'emit':
                    if [f[0] for f in fired] != [tag]:
                        v.add('callback_not_fired', '%s: ACK id %r for %s '
                              'fired %s' % (where, id_, tag, fired))
                    elif not typed_eq(wire_norm(fired[0][1]),
                                      wire_norm(payload)):
                        v.add('callback_arguments', '%s: got %s want %s'
                              % (where, trepr(fired[0][1]), trepr(payload)))
                    expected_cb[tag] = payload
                else:
                    c = calls[tag]
                    c['acked_at'] = w.now()
                    c['args'] = payload
                    if fired:
                        v.add('foreign_callback_fired', (where, fired))
            else:
                if fired:
                    v.add('callback_fired_for_wrong_ack', '%s (id %r, %s): '
                          'fired %s' % (where, id_, kind, fired), kind)
            for e in w.rec.errors[n_err:]:
                if match and 'injected callback failure' in (
                        e.get('exc') or ''):
                    continue
                v.add('ack_caused_error', '%s (id %r, %s): %s %s in %s'
                      % (where, id_, kind, e['msg'], e.get('exc'),
                         e.get('site')),
                      '%s@%s' % ((e.get('exc') or '').split(':')[0],
                                 e.get('site')))
        elif k == 'follow':
            _, p, q, ns = op
            sp, sq = sc.sid(p, ns), sc.sid(q, ns)
            if sp and sq:
                # (an emit with a callback to q while p sits in q's room
                # would have two recipients - unsupported; p therefore
                # leaves again, by disconnecting, before anything else)
                w.api('s', 'enter_room', sp, sq, namespace=ns)
                w.settle()
                w.rec.count('app.follow_room')
                if derive(case['seed'], 'follow_end', opi) % 2:
                    sc.forget(p, ns)
                    sc.peers[p].send_pkt(sio.DISCONNECT, ns, None, None)
                else:
                    sc.forget(p, ns)
                    w.api('s', 'disconnect', sp, namespace=ns)
                w.settle()
                end_sid(sp)
        elif k == 'adv':
            w.advance(op[1])
        elif k == 'disc':
            _, p, ns = op
            if not sc.alive(p):
                continue
            sid = sc.forget(p, ns)
            sc.peers[p].send_pkt(sio.DISCONNECT, ns, None, None)
            w.settle()
            if sid:
                end_sid(sid)
        elif k == 'sdisc':
            _, p, ns = op
            sid = sc.sid(p, ns)
            if not sid:
                continue
            sc.forget(p, ns)
            w.api('s', 'disconnect', sid, namespace=ns)
            w.settle()
            end_sid(sid)
        elif k == 'sdisc_expired':
            _, p, ns, pi, when = op
            sid = sc.sid(p, ns)
            if not sid or not sc.alive(p):
                continue
            pe = sc.peers[p]
            pe.auto_pong = False          # silent from now on
            pings0 = pe.pings
            w.settle()
            for _ in range(12):
                if pe.pings > pings0:
                    break
                w.advance(1.0)
            # (one more frame from the client - not a PONG - keeps the
            # asyncio server's reader, which gives up after ping_interval +
            # ping_timeout without any frame, from noticing first)
            w.advance(2.9)
            pe.send_pkt(sio.EVENT, ns, None, ['nobody-listens-to-this'])
            w.advance(0.6)
            w.rec.count('fault.half_open')
            w.rec.count('fault.clock_jump')
            late = [(i, t) for i, t in sorted(outstanding.get(sid, {}).items())
                    if issued[t]['kind'] == 'emit' and
                    not contains_bytes(ACK_PAYLOADS[pi])]
            n_cb = len(cb_log)
            if late and when == 'before':
                pe.send_pkt(sio.ACK, ns, late[0][0], ACK_PAYLOADS[pi])
            seq0 = w.rec.seq
            w.api('s', 'disconnect', sid, namespace=ns)
            w.settle()
            if late and when == 'after':
                try:
                    pe.send_pkt(sio.ACK, ns, late[0][0], ACK_PAYLOADS[pi])
                except Exception:   # noqa  (the pipe may be gone already)
                    pass
                w.settle()
            w.rec.count('fault.ping_timeout_in_disconnect')
            nontrivial = True
            ended = [e['seq'] for e in w.rec.events
                     if e['seq'] > seq0 and e['kind'] == 'op_end' and
                     tuple(e['op']) == ('disconnect',)]
            for tg, args, seq in cb_log[n_cb:]:
                if late and tg == late[0][1] and ended and seq < ended[0] \
                        and when == 'before':
                    # acknowledged while the disconnect was still under way
                    outstanding[sid].pop(late[0][0], None)
                    expected_cb[tg] = ACK_PAYLOADS[pi]
                    continue
                v.add('callback_after_disconnect', '%s: callback %s ran '
                      'with %s after disconnect(%s) had returned'
                      % (where, tg, trepr(args), sid))
            pe.sever(0.0)
            w.settle()
            for ns2, sid2 in sc.drop_transport(p):
                end_sid(sid2)
            end_sid(sid)
        elif k == 'sever':
            p = op[1]
            if not sc.alive(p):
                continue
            sc.peers[p].sever(0.0)
            w.settle()
            for ns, sid in sc.drop_transport(p):
                end_sid(sid)
        # after every op: call() results that are due
        for tag, c in calls.items():
            h = c['op']
            if c.get('checked') or not h.done:
                continue
            c['checked'] = True
            deadline = c['t0'] + c['timeout']
            if c['acked_at'] is not None and c['acked_at'] < deadline - 1e-3:
                want = shape_call_result(wire_norm(c['args']))
                if h.exc is not None:
                    v.add('call_raised_despite_ack', '%s: %r' % (tag, h.exc),
                          type(h.exc).__name__)
                elif not typed_eq(wire_norm(h.result)
                                  if not isinstance(h.result, tuple)
                                  else tuple(wire_norm(list(h.result))),
                                  want):
                    v.add('call_result', 'call %s returned %s, acknowledged '
                          '%s' % (tag, trepr(h.result), trepr(c['args'])))
            elif c['acked_at'] is None:
                if h.exc is None:
                    v.add('call_returned_without_ack', '%s -> %s'
                          % (tag, trepr(h.result)))
                elif type(h.exc).__name__ != 'TimeoutError':
                    v.add('call_wrong_exception', '%s: %r' % (tag, h.exc),
                          type(h.exc).__name__)
            else:
                stats['call_timeout_raced'] += 1
    w.settle()
    for tag, c in calls.items():
        if not c['op'].done:
            v.add('call_never_returned', tag)
    # history checks
    seen = {}
    for tag, args, seq in cb_log:
        seen[tag] = seen.get(tag, 0) + 1
    for tag, n in seen.items():
        if n > 1:
            v.add('callback_more_than_once', '%s fired %d times' % (tag, n))
        if issued.get(tag, {}).get('kind') == 'emit' and \
                tag not in expected_cb:
            v.add('callback_without_matching_ack', tag)
    for e in w.rec.errors:
        if 'injected callback failure' in (e.get('exc') or ''):
            continue
        v.add('error_logged', '%s %s in %s' % (e['msg'], e.get('exc'),
                                               e.get('site')),
              '%s@%s' % ((e.get('exc') or e['msg']).split(':')[0][:40],
                         e.get('site')))
    return {'violations': v.items, 'digest': w.rec.digest.hex(),
            'nontrivial': nontrivial, 'stats': {'acks': stats, 'faults': {
                k: n for k, n in w.rec.counters.items()
                if k.startswith('fault.')}},
            'sim_time': w.now() - 1_700_000_000.0,
            'cfg': '%s/%dns' % (cfg['mode'], len(cfg['nss'])),
            'choices': w.choices.dump(), 'log': w.rec.dump_log()}
