"""C04 - server connection lifecycle: accept / reject, disconnect handler
exactly once under any interleaving of terminating causes.

World: one real server (asyncio: concurrent causes; threaded: sequential, its
races are C20), 1-3 wire peers (transports), up to 3 namespaces each.
Oracle: history checks + the small connectivity model below."""
from sim import sio
from sim.world import make_world
from sim.util import typed_eq, wire_norm
from .common import (V, Registry, trepr, pkt_key, REAL_SERVER, STUBS,
                     legacy_arity, legacy_namespace)
import socketio

PROP = 'C04'
RUNS = {'quick': 8000, 'thorough': 300000}
BUDGET = {'quick': 100, 'thorough': 1500}
RULE = ('one run = one seeded history over {CONNECT(ns, auth), DISCONNECT, '
        'transport loss, server.disconnect, races of 2-3 terminating causes '
        'with seeded offsets, ping timeout after a clock jump} for 1-3 '
        'transports; non-trivial = at least one race op or fault executed; '
        'distinct = distinct SHA-256 of the event log')
REAL = REAL_SERVER
ASSUMPTIONS = ['E1', 'E2', 'threaded server explored sequentially only '
               '(property C20 owns its thread races)']
SHRINK_LISTS = ['ops']

NSS = ['/', '/a', '/b', '/c']
LATS = [(0.0,), (0.0, 0.001, 0.004), (0.0, 0.0, 0.002, 0.01)]
PAUSES = (0.0, 0.0, 0.001, 0.003, 0.01)
OFFSETS = (0.0, 0.0, 0.0005, 0.001, 0.002, 0.004, 0.008, 0.02)
BEHAVIOURS = ['accept', 'accept', 'accept', 'true', 'false', 'cre0', 'cre1',
              'cre2', 'cre3']
AUTHS = ['absent', 'empty', 'dict', 'list', 'string', 'dict2']


def auth_value(kind):
    return {'absent': None, 'empty': {}, 'dict': {'token': 'abc'},
            'list': [1, 'x'], 'string': 'secret',
            'dict2': {'user': 'u', 'n': [1, {'k': None}]}}[kind]


def gen(rng, tier):
    mode = rng.choice(['async', 'async', 'async', 'thread'])
    served = rng.sample(['/', '/a', '/b'], rng.randrange(1, 4))
    cfg = {
        'mode': mode,
        'always_connect': rng.random() < 0.4,
        'namespaces': rng.choice([None, None, '*', ['/', '/a', '/c']]),
        'style': rng.choice(['func', 'func', 'class']),
        'coroutine': rng.random() < 0.7,
        'lat': rng.randrange(len(LATS)),
        'served': served,
        'disc_handler': rng.random() < 0.9,
        'ping': rng.random() < 0.25,
        'send_pauses': rng.random() < 0.5,
        'catchall': rng.choice([None, None, 'func', 'class']),
        # legacy disconnect handlers: no reason argument
        'legacy_disc': rng.random() < 0.2,
        # connect handlers declared (sid, environ, auth) or (sid, environ)
        # instead of *args: the server tries without auth first when the
        # client sent none
        # ('mixed': the namespaces' handlers differ - (sid, environ, auth)
        # for one, (sid, environ) for the next)
        'connect_arity': rng.choice([None, None, 3, 3, 2, 'mixed', 'mixed']),
        # msgpack serializer: namespace names are arbitrary strings there
        'msgpack': rng.random() < 0.25,
        # the disconnect handler tells the namespace that the client left
        'disc_emits': rng.random() < 0.25,
        # the application puts every accepted session into a room (the names
        # are legal, some unusual: 0, the empty string)
        'app_room': rng.choice([None, None, 'lobby', 0, '', 0.0, 7]),
    }
    npeers = rng.randrange(1, 4)
    ops = []
    for p in range(npeers):
        ops.append(['open', p])
    n = rng.randrange(6, 22) if tier == 'quick' else rng.randrange(6, 40)
    for _ in range(n):
        p = rng.randrange(npeers)
        ns = rng.choice(NSS)
        k = rng.random()
        if cfg['msgpack'] and k < 0.38 and rng.random() < 0.15:
            ns = '*'      # a namespace literally named like the catch-all
        if k < 0.38:
            ops.append(['connect', p, ns, rng.choice(AUTHS),
                        rng.choice(BEHAVIOURS)])
        elif k < 0.46:
            ops.append(['disc', p, ns])
        elif k < 0.52:
            ops.append(['sdisc', p, ns])
        elif k < 0.57:
            ops.append(['sever', p, rng.choice([0.0, 0.0, 0.01])])
            ops.append(['open', p])
        elif k < 0.90:
            kinds = ['cdisc', 'sdisc', 'sever', 'sdisc_other', 'cdisc_other',
                     'sdisc', 'cdisc', 'cdisc_reconnect']
            causes = []
            for _ in range(rng.randrange(2, 4)):
                causes.append([rng.choice(kinds),
                               rng.randrange(len(OFFSETS))])
            if any(c[0] == 'cdisc_reconnect' for c in causes):
                # the other causes must be aimed at the old session id only
                # (a later client DISCONNECT or a transport loss would
                # legitimately end the re-connected session as well)
                seen = False
                for c in causes:
                    if c[0] == 'cdisc_reconnect':
                        if seen:
                            c[0] = 'sdisc'
                        seen = True
                    elif c[0] in ('cdisc', 'sever'):
                        c[0] = 'sdisc'
            # (last field: the client's disconnect handler disconnects
            # another client of the namespace - "the host leaves, kick the
            # guests" - before it goes on)
            kick = rng.random() < 0.3
            if kick and npeers > 1:
                # make sure there is a guest to kick, and (half of the time)
                # that two causes are aimed at the host itself
                p2 = rng.choice([x for x in range(npeers) if x != p])
                ops.append(['connect', p2, ns, 'absent', 'accept'])
                ops.append(['connect', p, ns, 'absent', 'accept'])
                if rng.random() < 0.5:
                    causes = [[rng.choice(['sdisc', 'cdisc']),
                               rng.randrange(2)],
                              [rng.choice(['sdisc', 'cdisc', 'sever']),
                               rng.randrange(2, len(OFFSETS))]]
            ops.append(['race', p, ns, causes, kick])
            if any(c[0] == 'sever' for c in causes):
                ops.append(['open', p])
        elif k < 0.95 and cfg['ping']:
            ops.append(['ptimeout', p, rng.choice(['emit', 'reader',
                                                   'sdisc'])])
            ops.append(['open', p])
        else:
            ops.append(['probe', p])
    return {'cfg': cfg, 'ops': ops}


def sample(case):
    return {'cfg': case['cfg'], 'ops': case['ops'][:14]}


def run(case):
    cfg = case['cfg']
    w = make_world(cfg['mode'], seed=case['seed'],
                   choices_replay=case.get('choices'),
                   lat=LATS[cfg['lat']], msgpack=bool(cfg.get('msgpack')),
                   send_pauses=(0.0, 0.0, 0.001, 0.004)
                   if cfg.get('send_pauses') else None)
    try:
        return _run(case, cfg, w)
    finally:
        w.close()


def refusal_payload(beh):
    if beh in ('false', 'cre0'):
        return {'message': 'Connection rejected by server'}
    if beh == 'cre1':
        return {'message': 'no way'}
    if beh == 'cre2':
        return {'message': 'no way', 'data': {'code': 7}}
    if beh == 'cre3':
        return {'message': 'no way', 'data': [1, 'two']}
    return None


def _run(case, cfg, w):
    v = V(PROP)
    kw = {}
    if cfg['ping']:
        kw = {'ping_interval': 5, 'ping_timeout': 3}
    srv = w.add_server('s', always_connect=cfg['always_connect'],
                       namespaces=cfg['namespaces'], async_handlers=False,
                       **kw)
    behaviours = {}     # (cid, ns) -> behaviour for the next connect request
    kick_map = {}       # (sid, ns) -> sid its disconnect handler disconnects
    coroutine = cfg['coroutine'] and cfg['mode'] == 'async'

    def plan(label, args, ev):
        event = label[3]
        ns = label[2]
        if event == 'connect':
            if ns == '*':
                ns = args[0]          # catch-all: the namespace comes first
            environ = [a for a in args
                       if isinstance(a, dict) and 'sim.conn' in a][0]
            cid = environ['sim.conn'].cid
            beh = behaviours.get((cid, ns), 'accept')
            ev['cid'] = cid
            ev['ns'] = ns
            pause = w.choices.pick('app', PAUSES, 'cpause')
            steps = [('pause', pause)]
            E = socketio.exceptions.ConnectionRefusedError
            if beh == 'accept':
                steps.append(('ret', None))
            elif beh == 'true':
                steps.append(('ret', True))
            elif beh == 'false':
                steps.append(('ret', False))
            elif beh == 'cre0':
                steps.append(('raise', E()))
            elif beh == 'cre1':
                steps.append(('raise', E('no way')))
            elif beh == 'cre2':
                steps.append(('raise', E('no way', {'code': 7})))
            elif beh == 'cre3':
                steps.append(('raise', E('no way', 1, 'two')))
            return steps
        if event == 'disconnect':
            pause = w.choices.pick('app', PAUSES, 'dpause')
            dns0, dsid = (args[0], args[1]) if ns == '*' else (ns, args[0])
            tgt = kick_map.pop((dsid, dns0), None)
            if tgt is not None:
                w.rec.count('app.disconnect_from_disconnect_handler')
                return [('do', lambda: srv.disconnect(tgt, namespace=dns0)),
                        ('pause', pause), ('ret', None)]
            if cfg.get('disc_emits'):
                dns = args[0] if ns == '*' else ns
                return [('pause', pause),
                        ('do', lambda: srv.emit('left', 'bye',
                                                namespace=dns)),
                        ('ret', None)]
            return [('pause', pause), ('ret', None)]
        return [('ret', 'pong')]

    events = ['connect', 'ping']
    if cfg['disc_handler']:
        events.append('disconnect')
    legacy = bool(cfg.get('legacy_disc'))
    def carity_of(key):
        """Declared arity of the connect handler registered under `key`
        (a served namespace or '*')."""
        ca = cfg.get('connect_arity')
        if ca != 'mixed':
            return ca
        keys = list(cfg['served']) + ['*']
        return 3 if keys.index(key) % 2 == 0 else 2

    def fn_handler(ns, evn):
        h = w.make_handler(('s', 'func', ns, evn), plan, coroutine)
        if legacy and evn == 'disconnect':
            # (sid) - or (namespace, sid) for the catch-all namespace
            h = legacy_arity(h, 2 if ns == '*' else 1, coroutine)
        carity = carity_of(ns)
        if carity and evn == 'connect':
            h = legacy_arity(h, carity + (1 if ns == '*' else 0), coroutine)
        return h

    def cls_handler(ns):
        base = socketio.AsyncNamespace if w.mode == 'async' \
            else socketio.Namespace
        o = w.make_namespace(ns, events, plan, server='s',
                             coroutine=coroutine, base=base)
        if legacy:
            legacy_namespace(o, 'disconnect', 2 if ns == '*' else 1,
                             coroutine)
        carity = carity_of(ns)
        if carity:
            legacy_namespace(o, 'connect', carity + (1 if ns == '*' else 0),
                             coroutine)
        return o

    for ns in cfg['served']:
        if cfg['style'] == 'func':
            for evn in events:
                srv.on(evn, fn_handler(ns, evn), namespace=ns)
        else:
            srv.register_namespace(cls_handler(ns))

    if cfg.get('catchall') == 'func':
        for evn in events:
            srv.on(evn, fn_handler('*', evn), namespace='*')
    elif cfg.get('catchall') == 'class':
        srv.register_namespace(cls_handler('*'))

    def nargs(e):
        """Handler arguments without the namespace prefix of catch-alls."""
        return e['args'][1:] if e['label'][2] == '*' else e['args']

    def is_served(ns):
        if ns in cfg['served']:
            return True
        if cfg['namespaces'] == '*':
            return True
        return ns in (cfg['namespaces'] or ['/'])

    def has_handlers(ns):
        # a catch-all (function or class based) handles every namespace that
        # is served; it does not by itself make a namespace served
        return ns in cfg['served'] or (bool(cfg.get('catchall')) and
                                       is_served(ns))

    def iq():
        # the local-only form of disconnect() (what a message queue uses to
        # apply a relayed request): same behaviour on a single server
        return bool(w.choices.chance('app', 1, 3, 'ignore_queue'))

    peers = {}
    live = {}         # p -> {ns: sid} per current transport (model)
    all_sids = set()
    conns = []        # accepted connections: dict(sid, p, ns, cid, ended, causes)
    by_sid = {}
    nontrivial = False
    rx_mark = {}

    def peer_alive(p):
        return p in peers and peers[p].conn is not None and \
            not peers[p].conn.severed and not peers[p].transport_closed

    def new_rx(p):
        peer = peers[p]
        out = [r for r in peer.rx if r['seq'] > rx_mark.get(id(peer), 0)]
        if peer.rx:
            rx_mark[id(peer)] = peer.rx[-1]['seq']
        return [r['pkt'] for r in out]

    def end_conn(sid, reason_set):
        c = by_sid.get(sid)
        if c is not None and not c['ended']:
            c['ended'] = True
            c['reasons'] = set(reason_set)

    def check_ended(c, where):
        """Disconnect handler exactly once with an admissible reason."""
        if not has_handlers(c['ns']) or not cfg['disc_handler']:
            return
        runs = [e for e in w.rec.of('h_enter')
                if e['label'][3] == 'disconnect' and nargs(e)[0] == c['sid']]
        if len(runs) != 1:
            v.add('disconnect_handler_count',
                  '%s: sid %s ns %s ended by %s: disconnect handler ran %d '
                  'times' % (where, c['sid'], c['ns'],
                             sorted(c.get('reasons', [])), len(runs)),
                  'got%d' % min(len(runs), 2))
            return
        e = runs[0]
        if e['label'][2] not in (c['ns'], '*') or (
                e['label'][2] == '*' and e['args'][0] != c['ns']):
            v.add('disconnect_handler_wrong_namespace', (e['label'], c['ns']))
        reason = nargs(e)[1] if len(nargs(e)) > 1 else None
        if legacy:
            if len(nargs(e)) != 1:
                v.add('legacy_disconnect_handler_arguments', nargs(e))
        elif reason not in c.get('reasons', ()):
            v.add('disconnect_reason', '%s: sid %s got reason %r, causes in '
                  'progress allow %s' % (where, c['sid'], reason,
                                         sorted(c['reasons'])))

    def probe_dead(c, where):
        """Nothing is delivered to a dead sid any more; listings forget it."""
        sid, ns = c['sid'], c['ns']
        if srv.manager.is_connected(sid, ns):
            v.add('still_connected', '%s: %s [%s]' % (where, sid, ns))
        rooms = srv.rooms(sid, ns)
        if rooms:
            v.add('still_in_rooms', '%s: %s in %s' % (where, sid, rooms))
        p = c['p']
        peer = c['peer']
        if live.get(p, {}).get(ns) is not None and peers[p] is peer:
            return   # namespace re-connected on the same transport: skip
        before = len(peer.rx)
        w.api('s', 'emit', 'probe', {'x': 1}, to=sid, namespace=ns)
        w.api('s', 'emit', 'probe_b', None, namespace=ns)
        w.settle()
        got = [r['pkt'] for r in peer.rx[before:]
               if r['pkt'].base == sio.EVENT and r['pkt'].nsp == ns]
        if got:
            v.add('delivered_after_disconnect', '%s: dead sid %s [%s] got %s'
                  % (where, sid, ns, got[:2]))
        new_rx(p) if peers.get(p) is peer else None

    def probe_alive(p, where):
        """The transport's other namespaces still work."""
        if not peer_alive(p):
            return
        for ns, sid in sorted(live.get(p, {}).items()):
            before = len(peers[p].rx)
            w.api('s', 'emit', 'alive', sid, to=sid, namespace=ns)
            w.settle()
            got = [r['pkt'] for r in peers[p].rx[before:]
                   if r['pkt'].base == sio.EVENT and r['pkt'].nsp == ns
                   and r['pkt'].data == ['alive', sid]]
            if len(got) != 1:
                v.add('other_namespace_affected', '%s: live sid %s [%s] '
                      'received %d copies of a direct emit'
                      % (where, sid, ns, len(got)), 'got%d' % min(len(got), 2))
            want_rooms = [sid] + ([cfg['app_room']]
                                  if by_sid.get(sid, {}).get('roomed')
                                  else [])
            if sorted(map(repr, srv.rooms(sid, ns))) != \
                    sorted(map(repr, want_rooms)):
                v.add('live_rooms_wrong', (sid, ns, srv.rooms(sid, ns)))
        new_rx(p)

    for opi, op in enumerate(case['ops']):
        k = op[0]
        where = 'op%d %s' % (opi, op)
        if k == 'open':
            p = op[1]
            if peer_alive(p):
                continue
            peers[p] = w.add_peer('s')
            if cfg['ping']:
                peers[p].auto_pong = True
            peers[p].open()
            live[p] = {}
            w.settle()
        elif k == 'connect':
            _, p, ns, authk, beh = op
            if not peer_alive(p):
                continue
            peer = peers[p]
            cid = peer.conn.cid
            behaviours[(cid, ns)] = beh
            auth = auth_value(authk)
            # which connect handler takes this namespace (functions before
            # class-based namespaces, the namespace's own before the
            # catch-all's)
            if cfg['style'] == 'func' and ns in cfg['served']:
                hkey = ns
            elif cfg.get('catchall') == 'func':
                hkey = '*'
            elif ns in cfg['served']:
                hkey = ns
            else:
                hkey = '*'
            if carity_of(hkey) == 2 and auth:
                auth = None   # a (sid, environ) handler cannot take auth:
                #               such clients are outside what it supports
            n_before = len(w.rec.events)
            new_rx(p)
            peer.send_pkt(sio.CONNECT, ns, None, auth)
            w.settle()
            got = new_rx(p)
            runs = [e for e in w.rec.events[n_before:]
                    if e['kind'] == 'h_enter' and e['label'][3] == 'connect'
                    and e.get('cid') == cid]
            already = ns in live[p]
            served = is_served(ns)
            answers = [g for g in got if g.nsp == ns]
            if not served or already:
                if runs:
                    v.add('connect_handler_ran_for_unserved_or_duplicate',
                          '%s ran %s' % (where, [e['label'] for e in runs]))
                keys = [(sio.NAMES[g.type]) for g in answers]
                if keys != ['CONNECT_ERROR']:
                    v.add('unserved_or_duplicate_not_refused',
                          '%s answered %s' % (where, answers),
                          'dup' if already else 'unserved')
                continue
            if has_handlers(ns):
                if len(runs) != 1:
                    v.add('connect_handler_count', '%s: ran %d times'
                          % (where, len(runs)), 'got%d' % min(len(runs), 2))
                else:
                    a = nargs(runs[0])
                    if auth:
                        if len(a) != 3 or not typed_eq(wire_norm(a[2]),
                                                       wire_norm(auth)):
                            v.add('connect_handler_auth', '%s: handler got '
                                  '%s, auth was %s' % (where, trepr(a[2:]),
                                                       trepr(auth)))
                    elif len(a) == 3 and a[2] is not None and a[2] != auth:
                        v.add('connect_handler_auth', '%s: handler got %s, '
                              'auth was %s' % (where, trepr(a[2:]),
                                               trepr(auth)))
                    if runs[0]['label'][2] not in (ns, '*') or (
                            runs[0]['label'][2] == '*' and
                            runs[0]['args'][0] != ns):
                        v.add('connect_handler_wrong_namespace',
                              (runs[0]['label'], ns))
            eff = beh if has_handlers(ns) else 'accept'
            refused = eff in ('false', 'cre0', 'cre1', 'cre2', 'cre3')
            kinds = [sio.NAMES[g.type] for g in answers]
            if not refused:
                if kinds != ['CONNECT']:
                    v.add('accept_answer', '%s answered %s'
                          % (where, answers), ','.join(kinds))
                    continue
                sid = (answers[0].data if isinstance(answers[0].data, dict) else {}).get('sid')
                if not isinstance(sid, str) or sid in all_sids:
                    v.add('sid_not_fresh', '%s: sid %r was used before'
                          % (where, sid))
                all_sids.add(sid)
                if runs and nargs(runs[0])[0] != sid:
                    v.add('connect_handler_sid', (nargs(runs[0])[0], sid))
                live[p][ns] = sid
                c = {'sid': sid, 'p': p, 'ns': ns, 'cid': cid, 'ended': False,
                     'peer': peer}
                conns.append(c)
                by_sid[sid] = c
                if not srv.manager.is_connected(sid, ns):
                    v.add('accepted_not_connected', where)
                elif cfg.get('app_room') is not None:
                    w.api('s', 'enter_room', sid, cfg['app_room'],
                          namespace=ns)
                    w.settle()
                    c['roomed'] = True
            else:
                want = refusal_payload(eff)
                if cfg['always_connect']:
                    ok = kinds == ['CONNECT', 'DISCONNECT'] and typed_eq(
                        answers[1].data, want)
                    sid = (answers[0].data if isinstance(answers[0].data, dict) else {}).get('sid') \
                        if answers else None
                else:
                    ok = kinds == ['CONNECT_ERROR'] and typed_eq(
                        answers[0].data, want)
                    sid = nargs(runs[0])[0] if runs else None
                if not ok:
                    v.add('refusal_answer', '%s (%s): answered %s, expected '
                          'refusal carrying %s' % (where, eff, answers, want),
                          eff)
                if sid is not None:
                    if sid in all_sids:
                        v.add('sid_not_fresh', '%s: refused sid %r reused'
                              % (where, sid))
                    all_sids.add(sid)
                    if srv.manager.is_connected(sid, ns) or \
                            srv.rooms(sid, ns) or any(
                                sid == s for s, _ in
                                srv.manager.get_participants(ns, None)):
                        v.add('refused_retains_membership',
                              '%s: %s' % (where, sid))
        elif k == 'disc':
            _, p, ns = op
            if not peer_alive(p):
                continue
            sid = live[p].pop(ns, None)
            peers[p].send_pkt(sio.DISCONNECT, ns, None, None)
            w.settle()
            if sid is not None:
                end_conn(sid, {'client disconnect'})
                check_ended(by_sid[sid], where)
                probe_dead(by_sid[sid], where)
                probe_alive(p, where)
        elif k == 'sdisc':
            _, p, ns = op
            if not peer_alive(p):
                continue
            sid = live[p].pop(ns, None)
            if sid is None:
                continue
            new_rx(p)
            op_h = w.api('s', 'disconnect', sid, namespace=ns,
                         ignore_queue=iq())
            w.settle()
            if op_h.exc is not None:
                v.add('server_disconnect_raised', '%s: %r' % (where, op_h.exc),
                      type(op_h.exc).__name__)
            got = [g for g in new_rx(p) if g.nsp == ns]
            # (the handler's own farewell to the namespace still reaches the
            # departing client: it is in its rooms until the handler is done)
            got = got[:1] + [g for g in got[1:]
                             if not (cfg.get('disc_emits') and
                                     g.base == sio.EVENT and
                                     g.data == ['left', 'bye'])]
            if [sio.NAMES[g.type] for g in got] != ['DISCONNECT']:
                v.add('server_disconnect_packet', '%s: peer saw %s'
                      % (where, got))
            end_conn(sid, {'server disconnect'})
            check_ended(by_sid[sid], where)
            probe_dead(by_sid[sid], where)
            probe_alive(p, where)
        elif k == 'sever':
            _, p, tell = op
            if not peer_alive(p):
                continue
            nontrivial = True
            sids = dict(live[p])
            live[p] = {}
            peers[p].sever(tell_server=tell)
            w.settle()
            for ns, sid in sids.items():
                end_conn(sid, {'transport close', 'transport error'})
                check_ended(by_sid[sid], where)
                probe_dead(by_sid[sid], where)
        elif k == 'race':
            _, p, ns, causes = op[:4]
            kick = len(op) > 4 and op[4] and cfg['disc_handler'] and \
                (w.mode == 'thread' or coroutine) and has_handlers(ns)
            if not peer_alive(p) or w.mode != 'async' and len(causes) > 1 \
                    and False:
                continue
            sid = live[p].get(ns)
            if sid is None:
                continue
            others = sorted(n for n in live[p] if n != ns)
            reasons = {}
            ended = {}      # sid -> reasons
            reconnects = []
            peer = peers[p]
            new_rx(p)
            if w.mode != 'async':
                # threaded server: sequential executions only
                causes = causes[:1]
                w.rec.count('race.sequentialised')
            nontrivial = True

            def add(s, r):
                ended.setdefault(s, set()).update(r)
            if kick and any(kd in ('cdisc', 'sdisc', 'cdisc_reconnect',
                                   'sever') for kd, _ in causes):
                guests = sorted((p2, live[p2][ns]) for p2 in live
                                if p2 != p and ns in live[p2]
                                and peer_alive(p2))
                if guests:
                    kick_map[(sid, ns)] = guests[0][1]
                    add(guests[0][1], {'server disconnect'})
                    new_rx(guests[0][0])
            for kind, offi in causes:
                off = OFFSETS[offi]
                if kind == 'cdisc':
                    w.after(off, peer.send_pkt, sio.DISCONNECT, ns, None,
                            None)
                    add(sid, {'client disconnect'})
                elif kind == 'sdisc':
                    w.after(off, lambda sid=sid, ns=ns, q=iq(): w.api(
                        's', 'disconnect', sid, namespace=ns,
                        ignore_queue=q))
                    add(sid, {'server disconnect'})
                elif kind == 'cdisc_reconnect':
                    # the client leaves the namespace and asks for it again
                    # on the same transport, in the middle of the race
                    w.after(off, peer.send_pkt, sio.DISCONNECT, ns, None,
                            None)
                    behaviours[(peer.conn.cid, ns)] = 'accept'
                    w.after(off + OFFSETS[(offi + 3) % len(OFFSETS)],
                            peer.send_pkt, sio.CONNECT, ns, None, None)
                    add(sid, {'client disconnect'})
                    reconnects.append(ns)
                elif kind == 'sever':
                    w.after(off, peer.sever, 0.0)
                    for n2, s2 in live[p].items():
                        add(s2, {'transport close', 'transport error'})
                elif kind == 'sdisc_other' and others:
                    o = others[0]
                    so = live[p][o]
                    w.after(off, lambda so=so, o=o, q=iq(): w.api(
                        's', 'disconnect', so, namespace=o,
                        ignore_queue=q))
                    add(so, {'server disconnect'})
                elif kind == 'cdisc_other' and others:
                    o = others[-1]
                    so = live[p][o]
                    w.after(off, peer.send_pkt, sio.DISCONNECT, o, None,
                            None)
                    add(so, {'client disconnect'})
            if len(causes) >= 2:
                w.rec.count('race.%d_causes' % len(causes))
            w.settle()
            kick_map.pop((sid, ns), None)
            for s2, rs in ended.items():
                c = by_sid[s2]
                live[c['p']].pop(c['ns'], None)
                end_conn(s2, rs)
                check_ended(c, where)
            # a CONNECT sent during the race may have been accepted: that is
            # a new connection nobody has asked to end
            if reconnects and peer_alive(p):
                for g in new_rx(p):
                    if g.type == sio.CONNECT and g.nsp in reconnects:
                        sid2 = (g.data or {}).get('sid')
                        if sid2 in all_sids:
                            v.add('sid_not_fresh', '%s: %r' % (where, sid2))
                        all_sids.add(sid2)
                        live[p][g.nsp] = sid2
                        c2 = {'sid': sid2, 'p': p, 'ns': g.nsp,
                              'cid': peer.conn.cid, 'ended': False,
                              'peer': peer}
                        conns.append(c2)
                        by_sid[sid2] = c2
                        w.rec.count('race.reconnect_accepted')
            for s2 in ended:
                probe_dead(by_sid[s2], where)
            probe_alive(p, where)
            for o in w.ops:
                if o.done and o.exc is not None and not getattr(
                        o, 'seen', False):
                    o.seen = True
                    v.add('api_raised', '%s: %s raised %r'
                          % (where, o.label, o.exc), type(o.exc).__name__)
        elif k == 'ptimeout':
            _, p, how = op
            if not peer_alive(p) or not cfg['ping'] or not live[p]:
                continue
            nontrivial = True
            peer = peers[p]
            peer.auto_pong = False
            sids = dict(live[p])
            live[p] = {}
            # the server pings every 5 s and allows 3 s for the answer; jump
            # into the window where the timeout has expired but the reader
            # has not given up yet, then make somebody send
            pings0 = peer.pings
            for _ in range(12):
                if peer.pings > pings0:
                    break
                w.advance(1.0)
            w.advance(3.5)
            w.rec.count('fault.clock_jump')
            ns0, sid0 = sorted(sids.items())[0]
            reasons = {'ping timeout', 'transport close', 'transport error'}
            if how == 'emit':
                w.api('s', 'emit', 'x', 1, to=sid0, namespace=ns0)
            elif how == 'sdisc':
                w.api('s', 'disconnect', sid0, namespace=ns0)
            w.settle()
            w.advance(20.0)
            w.settle()
            for ns, sid in sids.items():
                rs = set(reasons)
                if how == 'sdisc' and sid == sid0:
                    rs.add('server disconnect')
                end_conn(sid, rs)
                check_ended(by_sid[sid], where)
            w.rec.count('fault.ping_timeout')
            peer.sever(0.0)
            w.settle()
            for ns, sid in sids.items():
                probe_dead(by_sid[sid], where)
        elif k == 'probe':
            probe_alive(op[1], where)
    w.settle()
    # connections never ended must not have seen a disconnect handler
    for c in conns:
        if not c['ended'] and cfg['disc_handler']:
            runs = [e for e in w.rec.of('h_enter')
                    if e['label'][3] == 'disconnect'
                    and nargs(e)[0] == c['sid']]
            if runs:
                v.add('disconnect_handler_without_cause',
                      'sid %s [%s] never ended but handler ran %d times'
                      % (c['sid'], c['ns'], len(runs)))
    for e in w.rec.errors:
        v.add('error_logged', '%s %s' % (e['msg'], e.get('exc')),
              (e.get('exc') or e['msg']).split(':')[0][:40])
    for o in w.ops:
        if o.done and o.exc is not None and not getattr(o, 'seen', False):
            v.add('api_raised', '%s raised %r' % (o.label, o.exc),
                  type(o.exc).__name__)
    stats = {'faults': {k: n for k, n in w.rec.counters.items()
                        if k.startswith('fault.')},
             'races': {k: n for k, n in w.rec.counters.items()
                       if k.startswith('race.')},
             'accepted': len(conns),
             'ended': len([c for c in conns if c['ended']])}
    return {'violations': v.items, 'digest': w.rec.digest.hex(),
            'nontrivial': nontrivial, 'stats': stats,
            'sim_time': w.now() - 1_700_000_000.0,
            'cfg': '%s/ac=%s/%s/ns=%s' % (cfg['mode'], cfg['always_connect'],
                                          cfg['style'], cfg['namespaces']),
            'choices': w.choices.dump(), 'log': w.rec.dump_log()}
