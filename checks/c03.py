"""C03 - rooms: an emit reaches exactly the addressed members, once each.

World: one real server (Manager in the thread world, AsyncManager in the
asyncio world), 2-6 wire peers, 1-3 namespaces.  Generated: histories over
connect / enter_room / leave_room / close_room / rooms() / disconnects /
transport loss / emit(to, skip_sid, namespace).  Oracle: reference room model,
exact recipient multiset per emit, rooms() equality after every op."""
from sim import sio
from sim.world import make_world
from sim.util import typed_eq
from .common import V, trepr, REAL_SERVER, STUBS
from .scene import Scene

PROP = 'C03'
RUNS = {'quick': 6000, 'thorough': 200000}
BUDGET = {'quick': 100, 'thorough': 1500}
RULE = ('one run = one seeded history of 10-60 room/emit/lifecycle operations '
        'for 2-6 wire peers on 1-3 namespaces, each op run to quiescence '
        '(asyncio world: 1 emit in 4 is issued concurrently with a '
        'membership change and checked against the membership at one of the '
        'two instants); non-trivial = the history contains an emit whose '
        'recipient set is neither empty nor everybody; distinct = distinct '
        'SHA-256 of the event log; coverage.states counts distinct abstract '
        'membership states (sorted room sizes per namespace)')
REAL = REAL_SERVER
ASSUMPTIONS = ['E1', 'E2', 'falsy / empty-list targets are outside the domain '
               'and not generated']
SHRINK_LISTS = ['ops']

NSS = ['/', '/a', '/b']
ROOMS = ['r1', 'r2', 'lobby', 7, 42, 1.5, 'r1 ', 'R1', '0', 'None']
LATS = [(0.0,), (0.0, 0.001, 0.004)]


def gen(rng, tier):
    mode = rng.choice(['async', 'thread'])
    npeers = rng.randrange(2, 7)
    served = rng.sample(NSS, rng.randrange(1, 4))
    cfg = {'mode': mode, 'served': served, 'lat': rng.randrange(len(LATS)),
           'msgpack': rng.random() < 0.15,
           # asyncio: sends suspend for a seeded time (a membership change
           # issued meanwhile runs while the emit is half-way through)
           'send_pauses': rng.random() < 0.4,
           # thread world: free schedule (an emit and a membership change
           # issued by two application threads interleave at every send)
           'policy': rng.choice(['fifo', 'random', 'pct']),
           # the application's own handlers use the rooms: the connect
           # handler puts the client into 'lobby', the disconnect handler
           # "moves" it (leaves 'lobby', enters 'limbo') on its way out
           'handlers_use_rooms': rng.random() < 0.4}
    ops = []
    for p in range(npeers):
        ops.append(['open', p])
        for ns in served:
            if rng.random() < 0.75:
                ops.append(['connect', p, ns])
    n = rng.randrange(10, 40) if tier == 'quick' else rng.randrange(10, 60)

    def room():
        k = rng.random()
        if k < 0.7:
            return ['room', rng.choice(ROOMS)]
        return ['sidof', rng.randrange(npeers)]
    for _ in range(n):
        k = rng.random()
        p = rng.randrange(npeers)
        ns = rng.choice(served + ['/nobody'] if rng.random() < 0.1
                        else served)
        if k < 0.22:
            ops.append(['enter', p, ns, room()])
        elif k < 0.32:
            ops.append(['leave', p, ns, room()])
        elif k < 0.38:
            ops.append(['close', ns, room()])
        elif k < 0.44:
            ops.append(['connect', p, rng.choice(NSS)])
        elif k < 0.48:
            ops.append(['disc', p, ns])
        elif k < 0.52:
            ops.append(['sdisc', p, ns])
        elif k < 0.55:
            ops.append(['sever', p])
            ops.append(['open', p])
        else:
            tk = rng.random()
            if tk < 0.2:
                to = None
            elif tk < 0.55:
                to = room()
            elif tk < 0.8:
                to = ['list', [room() for _ in range(rng.randrange(1, 4))]]
            else:
                to = ['sidof', rng.randrange(npeers)]
            sk = rng.random()
            if sk < 0.5:
                skip = None
            elif sk < 0.8:
                skip = ['sidof', rng.randrange(npeers)]
            else:
                skip = ['list', [['sidof', rng.randrange(npeers)]
                                 for _ in range(rng.randrange(1, 4))]]
            race = None
            if rng.random() < 0.25:
                race = [rng.choice(['enter', 'leave', 'close', 'disc']),
                        rng.randrange(npeers), room()]
            ops.append(['emit', ns, to, skip, race,
                        rng.choice(['room', 'to']),
                        rng.random() < 0.3])     # payload with bytes
    return {'cfg': cfg, 'ops': ops}


def sample(case):
    return {'cfg': case['cfg'], 'ops': case['ops'][:16]}


class RoomModel:
    """members[ns][room] -> set of sids; None room = everybody connected."""

    def __init__(self):
        self.m = {}

    def connect(self, sid, ns):
        self.m.setdefault(ns, {}).setdefault(None, set()).add(sid)
        self.m[ns].setdefault(sid, set()).add(sid)

    def connected(self, sid, ns):
        return sid in self.m.get(ns, {}).get(None, ())

    def enter(self, sid, ns, room):
        if not self.connected(sid, ns):
            return False
        self.m[ns].setdefault(room, set()).add(sid)
        return True

    def leave(self, sid, ns, room):
        s = self.m.get(ns, {}).get(room)
        if s is not None:
            s.discard(sid)
            if not s:
                del self.m[ns][room]

    def close(self, ns, room):
        self.m.get(ns, {}).pop(room, None)

    def disconnect(self, sid, ns):
        for room in list(self.m.get(ns, {})):
            self.leave(sid, ns, room)

    def rooms(self, sid, ns):
        return [r for r, s in self.m.get(ns, {}).items()
                if r is not None and sid in s]

    def recipients(self, ns, to, skip):
        nsm = self.m.get(ns, {})
        if to is None:
            rec = set(nsm.get(None, ()))
        elif isinstance(to, list):
            rec = set()
            for r in to:
                rec |= nsm.get(r, set())
        else:
            rec = set(nsm.get(to, ()))
        if skip is None:
            sk = set()
        elif isinstance(skip, list):
            sk = set(skip)
        else:
            sk = {skip}
        return rec - sk

    def abstract(self):
        return tuple(sorted(
            (ns, tuple(sorted(len(s) for r, s in rooms.items())))
            for ns, rooms in self.m.items()))


def run(case):
    cfg = case['cfg']
    w = make_world(cfg['mode'], seed=case['seed'],
                   choices_replay=case.get('choices'),
                   lat=LATS[cfg['lat']], msgpack=cfg['msgpack'],
                   send_pauses=(0.0, 0.001, 0.004)
                   if cfg.get('send_pauses') else None,
                   policy=cfg.get('policy', 'fifo'))
    try:
        return _run(case, cfg, w)
    finally:
        w.close()


def _run(case, cfg, w):
    v = V(PROP)
    srv = w.add_server('s', async_handlers=False,
                       namespaces=list(cfg['served']))
    for ns in cfg['served']:
        srv.on('x', w.make_handler(('s', 'func', ns, 'x'),
                                   lambda l, a, e: [('ret', None)]),
               namespace=ns)
    if cfg.get('handlers_use_rooms'):
        def hplan(label, args, ev):
            ns, sid = label[2], args[0]
            if label[3] == 'connect':
                return [('do', lambda: srv.enter_room(sid, 'lobby',
                                                      namespace=ns)),
                        ('ret', None)]
            return [('do', lambda: srv.leave_room(sid, 'lobby',
                                                  namespace=ns)),
                    ('do', lambda: srv.enter_room(sid, 'limbo',
                                                  namespace=ns)),
                    ('ret', None)]
        for ns in cfg['served']:
            for evn in ('connect', 'disconnect'):
                srv.on(evn, w.make_handler(('s', 'func', ns, evn), hplan,
                                           coroutine=w.mode == 'async'),
                       namespace=ns)
    sc = Scene(w)
    model = RoomModel()
    states = set()
    nontrivial = False
    probes = {'list_with_shared_member': 0, 'room_named_like_sid': 0,
              'room_recreated': 0, 'emit_raced': 0}
    emptied = set()
    n_emit = 0

    def res_room(r, ns):
        if r[0] == 'room':
            return r[1]
        if r[0] == 'sidof':
            s = sc.sid(r[1], ns)
            return s if s is not None else 'no-such-sid-%d' % r[1]
        raise ValueError(r)

    def res_target(t, ns):
        if t is None:
            return None
        if t[0] == 'list':
            return [res_room(x, ns) for x in t[1]]
        return res_room(t, ns)

    def check_rooms(where):
        for (p, ns), sid in sc.live_sids():
            got = srv.rooms(sid, ns)
            want = model.rooms(sid, ns)
            if sorted(map(repr, got)) != sorted(map(repr, want)) or \
                    len(got) != len(set(map(repr, got))):
                v.add('rooms_listing', '%s: rooms(%s,%s)=%s model=%s'
                      % (where, sid, ns, got, want))
        states.add(model.abstract())

    def api_ok(op, where, allow=(ValueError, KeyError)):
        if op.exc is not None and not isinstance(op.exc, allow):
            v.add('api_raised', '%s raised %r' % (where, op.exc),
                  type(op.exc).__name__)
        return op.exc is None

    def end_sid(sid, ns):
        model.disconnect(sid, ns)

    for opi, op in enumerate(case['ops']):
        k = op[0]
        where = 'op%d %s' % (opi, op)
        if k == 'open':
            if not sc.alive(op[1]):
                sc.open(op[1])
        elif k == 'connect':
            _, p, ns = op
            if not sc.alive(p) or sc.sid(p, ns):
                continue
            sid = sc.connect(p, ns)
            if sid is not None:
                if ns not in cfg['served']:
                    v.add('unserved_namespace_accepted', where)
                model.connect(sid, ns)
                if cfg.get('handlers_use_rooms'):
                    model.enter(sid, ns, 'lobby')
        elif k == 'enter':
            _, p, ns, r = op
            sid = sc.sid(p, ns) or 'ghost-%d' % p
            room = res_room(r, ns)
            if r[0] == 'sidof' and room in sc.owner:
                probes['room_named_like_sid'] += 1
            h = w.api('s', 'enter_room', sid, room, namespace=ns)
            w.settle()
            api_ok(h, where)
            if model.enter(sid, ns, room) and (ns, repr(room)) in emptied:
                probes['room_recreated'] += 1
        elif k == 'leave':
            _, p, ns, r = op
            sid = sc.sid(p, ns) or 'ghost-%d' % p
            room = res_room(r, ns)
            h = w.api('s', 'leave_room', sid, room, namespace=ns)
            w.settle()
            api_ok(h, where)
            had = room in model.m.get(ns, {})
            model.leave(sid, ns, room)
            if had and room not in model.m.get(ns, {}):
                emptied.add((ns, repr(room)))
        elif k == 'close':
            _, ns, r = op
            room = res_room(r, ns)
            h = w.api('s', 'close_room', room, namespace=ns)
            w.settle()
            api_ok(h, where)
            if room in model.m.get(ns, {}):
                emptied.add((ns, repr(room)))
            model.close(ns, room)
        elif k == 'disc':
            _, p, ns = op
            if not sc.alive(p):
                continue
            sid = sc.forget(p, ns)
            sc.peers[p].send_pkt(sio.DISCONNECT, ns, None, None)
            w.settle()
            if sid:
                end_sid(sid, ns)
                if srv.rooms(sid, ns):
                    v.add('rooms_after_disconnect', (where, srv.rooms(sid, ns)))
        elif k == 'sdisc':
            _, p, ns = op
            sid = sc.sid(p, ns)
            if not sid:
                continue
            sc.forget(p, ns)
            h = w.api('s', 'disconnect', sid, namespace=ns)
            w.settle()
            api_ok(h, where, allow=())
            end_sid(sid, ns)
            if srv.rooms(sid, ns):
                v.add('rooms_after_disconnect', (where, srv.rooms(sid, ns)))
        elif k == 'sever':
            p = op[1]
            if not sc.alive(p):
                continue
            sc.peers[p].sever(0.0)
            w.settle()
            for ns, sid in sc.drop_transport(p):
                end_sid(sid, ns)
                if srv.rooms(sid, ns):
                    v.add('rooms_after_disconnect', (where, srv.rooms(sid, ns)))
        elif k == 'emit':
            _, ns, to_s, skip_s, race, argname = op[:6]
            binary = len(op) > 6 and op[6]
            if binary and race is not None and w.mode == 'thread' and \
                    cfg.get('policy', 'fifo') != 'fifo':
                # two application threads sending to one client at once: the
                # frames of a multi-frame (binary) packet are not sent as a
                # unit by the threaded server - that is the defect recorded
                # under C05 (interleaved frames), not this property
                binary = False
            to = res_target(to_s, ns)
            skip = res_target(skip_s, ns)
            n_emit += 1
            tag = 'E%d' % n_emit
            before = set(model.recipients(ns, to, skip))
            if isinstance(to, list):
                nsm = model.m.get(ns, {})
                sets = [nsm.get(r, set()) for r in to]
                if len(sets) >= 2 and any(
                        sets[i] & sets[j] for i in range(len(sets))
                        for j in range(i + 1, len(sets))):
                    probes['list_with_shared_member'] += 1
            mark = sc.mark()
            kw = {'namespace': ns, 'skip_sid': skip}
            kw[argname] = to
            raced = False
            payload = (tag, b'\x00\x01' + tag.encode()) if binary else tag
            want_data = ['ev', tag] + ([payload[1]] if binary else [])
            if race is not None and (w.mode == 'async' or
                                     cfg.get('policy', 'fifo') != 'fifo'):
                # a membership change issued in the same instant, before or
                # after the emit (seeded); sequential code paths - the emit
                # must see exactly one of the two memberships
                rk, rp, rr = race
                rsid = sc.sid(rp, ns)
                rroom = res_room(rr, ns)
                first = w.choices.draw('app', 2, 'race_first')
                raced = rsid is not None

                def do_race():
                    if rsid is None:
                        return None
                    if rk == 'enter':
                        return w.api('s', 'enter_room', rsid, rroom,
                                     namespace=ns)
                    if rk == 'leave':
                        return w.api('s', 'leave_room', rsid, rroom,
                                     namespace=ns)
                    if rk == 'close':
                        return w.api('s', 'close_room', rroom, namespace=ns)
                    if rk == 'disc':
                        return w.api('s', 'disconnect', rsid, namespace=ns)
                if first:
                    do_race()
                h = w.api('s', 'emit', 'ev', payload, **kw)
                if not first:
                    do_race()
                # model side
                if rsid is not None:
                    if rk == 'enter':
                        model.enter(rsid, ns, rroom)
                    elif rk == 'leave':
                        model.leave(rsid, ns, rroom)
                    elif rk == 'close':
                        model.close(ns, rroom)
                    elif rk == 'disc':
                        model.disconnect(rsid, ns)
                        sc.forget(rp, ns)
                    probes['emit_raced'] += 1
            else:
                h = w.api('s', 'emit', 'ev', payload, **kw)
            w.settle()
            api_ok(h, where, allow=())
            after = set(model.recipients(ns, to, skip))
            got = {}
            for pe, pk in sc.since(mark):
                if pk.base == sio.EVENT and isinstance(pk.data, list) and \
                        pk.data[:1] == ['ev']:
                    if pk.data != want_data:
                        v.add('wrong_payload', (where, pk))
                    got[(id(pe), pk.nsp)] = got.get((id(pe), pk.nsp), 0) + 1

            def expect_of(rec):
                e = {}
                for sid in rec:
                    p, ns2, pe = sc.owner[sid]
                    e[(id(pe), ns2)] = e.get((id(pe), ns2), 0) + 1
                return e
            cands = [before, after] if raced else [before]
            if not any(got == expect_of(c) for c in cands):
                names = {id(pe): pe.idx for pe in w.peers}
                v.add('recipients', '%s: delivered to %s, model says %s'
                      % (where,
                         sorted((names[a], b, n) for (a, b), n in got.items()),
                         [sorted((names[a], b, n)
                                 for (a, b), n in expect_of(c).items())
                          for c in cands]),
                      'dup' if any(n > 1 for n in got.values()) else
                      ('extra' if set(got) - set(expect_of(cands[0]))
                       else 'missing'))
            everybody = set(model.m.get(ns, {}).get(None, ()))
            if before and before != everybody:
                nontrivial = True
        check_rooms(where)
    # history check: nothing ever arrived on a namespace a transport was not
    # connected to at that time -- covered by the per-emit exactness above;
    # here: no EVENT frames outside emits
    for e in w.rec.errors:
        v.add('error_logged', '%s %s' % (e['msg'], e.get('exc')),
              (e.get('exc') or e['msg']).split(':')[0][:40])
    # every transport's stream is well formed: a binary header is followed
    # by its attachments, no attachment arrives on its own
    for pe in w.peers:
        if pe.asm.errors:
            v.add('stream_corrupted', 'peer %s: %s' % (pe.idx,
                                                       pe.asm.errors[:2]),
                  'incomplete')
        stray = [r['pkt'] for r in pe.rx if r['pkt'].type == 'stray-binary']
        if stray:
            v.add('stream_corrupted', 'peer %s: attachment without a '
                  'header: %s' % (pe.idx, stray[:2]), 'stray')
    stats = {'probes': probes, 'emits': n_emit, 'states': len(states)}
    return {'violations': v.items, 'digest': w.rec.digest.hex(),
            'nontrivial': nontrivial, 'stats': stats,
            'sim_time': w.now() - 1_700_000_000.0,
            'cfg': '%s/%s' % (cfg['mode'], 'msgpack' if cfg['msgpack']
                              else 'json'),
            'choices': w.choices.dump(), 'log': w.rec.dump_log()}
