"""C02 - end-to-end payload transparency between client and server handlers.

World: one real server and one real client, full stacks (socketio + real
engine.io) on both sides, joined by the simulated pipe.  Grid: {Server+Client
(thread world, fifo), AsyncServer+AsyncClient} x {default, msgpack} x
{websocket framing, base64 text framing of attachments} x 1-3 namespaces x
handler style.  The quantifier of this property has no fault in it: latency
jitter and back-pressure only (stated in DESIGN 4/C02)."""
import socketio

from sim import sio
from sim.world import make_world
from sim.util import (typed_eq, wire_norm, expect_args, gen_payload,
                      gen_event_name, shape_call_result)
from .common import V, trepr, REAL_CLIENT, REAL_SERVER, STUBS

PROP = 'C02'
RUNS = {'quick': 4000, 'thorough': 150000}
BUDGET = {'quick': 100, 'thorough': 1500}
RULE = ('one run = one configuration of the grid and up to N messages per '
        'direction (emit / send / call, with and without callback) with '
        'generated event names, JSON+bytes payloads and handler return '
        'values, issued one after another by a single sender per direction '
        'under seeded latencies and back-pressure; non-trivial = at least '
        'one payload or return value contains bytes or is a tuple/None '
        '(argument-count shaping); distinct = distinct SHA-256 of the event '
        'log')
REAL = REAL_CLIENT + REAL_SERVER
ASSUMPTIONS = ['E1 (thread world: fifo policy)', 'E2', 'no loss injected: '
               'the property quantifies over inputs and configurations']
SHRINK_LISTS = ['c2s', 's2c']
NSS = ['/', '/chat', '/a-b']
LATS = [(0.0,), (0.0, 0.001, 0.004), (0.0, 0.0005, 0.002, 0.02)]
BPS = [(0.0,), (0.0, 0.0, 0.001)]


def gen(rng, tier):
    mode = rng.choice(['async', 'thread'])
    nss = NSS[:rng.randrange(1, 4)]
    cfg = {'mode': mode, 'msgpack': rng.random() < 0.4,
           'transcode': rng.random() < 0.4, 'nss': nss,
           'style': rng.choice(['func', 'class']),
           'coroutine': rng.random() < 0.6,
           'async_handlers': rng.random() < 0.5,
           'lat': rng.randrange(len(LATS)), 'bp': rng.randrange(len(BPS))}
    nmax = 6 if tier == 'quick' else 20
    depth = 2 if tier == 'quick' else 3
    names = []
    while len(names) < 4:
        n = gen_event_name(rng)
        if n not in names and n not in ('connect', 'disconnect',
                                        'connect_error'):
            names.append(n)

    def msgs():
        out = []
        for i in range(rng.randrange(1, nmax + 1)):
            kind = rng.choice(['emit', 'emit', 'emit_cb', 'call', 'send',
                               'send_cb'])
            ev = 'message' if kind.startswith('send') else rng.choice(names)
            out.append({'kind': kind, 'ns': rng.choice(nss), 'event': ev,
                        'payload': gen_payload(rng, depth,
                                               allow_bytes=True),
                        'ret': gen_payload(rng, depth, allow_bytes=True)})
        return out
    case = {'cfg': cfg, 'names': names, 'c2s': msgs(), 's2c': msgs()}
    # handlers of both kinds (plain functions and coroutines) side by side
    cfg['mixed_kinds'] = rng.random() < 0.5
    # the client is also connected to a namespace nothing is sent on; the
    # server ends THAT namespace while messages (and their acknowledgements)
    # are in flight on the others - which must not notice
    cfg['spare_drop'] = rng.random() < 0.25
    # the client's connect handler uses the namespace at once: it emits with
    # a callback, and the server's answer must reach that callback
    cfg['connect_emits'] = rng.random() < 0.3
    # at the very end: a call() that times out (its handler is slow), then a
    # perfectly normal call() on the same namespace while the late answer of
    # the first is still on its way
    cfg['late_ack'] = rng.choice([None, None, None, 'c2s', 's2c'])
    if rng.random() < 0.3:
        # a second sender at wire level: consecutive events in ONE polling
        # payload (handled by the server back to back)
        case['burst'] = [{'ns': rng.choice(nss), 'event': rng.choice(names),
                          'payload': gen_payload(rng, 1, allow_bytes=True)}
                         for _ in range(rng.randrange(2, 6))]
    if rng.random() < 0.05:
        # one more message at the very end whose payload contains a dict that
        # IS a placeholder on the wire ({'_placeholder': truthy, 'num': n})
        # next to a bytes value: see the known finding
        look = {'_placeholder': rng.choice([True, 1, 'yes']),
                'num': rng.choice([0, 0, 1, 7, -1, 'n'])}
        pl = rng.choice([
            {'blob': b'\x00\x01bin', 'meta': look},
            [look, b'xyz'],
            (b'first', look),
            {'k': [b'a', b'b'], 'v': {'inner': look}},
        ])
        case['lookalike'] = {'dir': rng.choice(['c2s', 's2c']),
                             'kind': rng.choice(['emit', 'emit_cb']),
                             'ns': rng.choice(nss), 'event': names[0],
                             'payload': pl, 'ret': None}
    return case


def sample(case):
    return {'cfg': case['cfg'], 'c2s': case['c2s'][:3], 's2c': case['s2c'][:3]}


def run(case):
    cfg = case['cfg']
    w = make_world(cfg['mode'], seed=case['seed'],
                   choices_replay=case.get('choices'), msgpack=cfg['msgpack'],
                   lat=LATS[cfg['lat']], bp=BPS[cfg['bp']], policy='fifo')
    try:
        return _run(case, cfg, w)
    finally:
        w.close()


def _has_shape(p):
    from sim.util import contains_bytes
    return p is None or isinstance(p, tuple) or contains_bytes(p)


def _run(case, cfg, w):
    v = V(PROP)
    rec = w.rec
    w.net.transcode = cfg['transcode']
    SPARE = '/spare'
    all_nss = list(cfg['nss']) + ([SPARE] if cfg.get('spare_drop') else [])
    srv = w.add_server('s', async_handlers=cfg['async_handlers'],
                       namespaces=all_nss)
    c = w.add_client('c', reconnection=False)
    events = sorted(set(case['names']) | {'message'})
    rets = {'s': {}, 'c': {}}     # who -> {msg index -> ret} set before send
    counters = {'s': 0, 'c': 0}
    order = {'s': [], 'c': []}    # receiver side: indices in invocation order

    hello_cb = {}

    def make_plan(who):
        def plan(label, args, ev):
            if label[3] == 'slow':
                tag = args[-1]
                return [('pause', 0.2 if tag == 'A' else 0.3),
                        ('ret', 'ans-' + tag)]
            if who == 'c' and label[3] == 'connect' and \
                    cfg.get('connect_emits'):
                ns = label[2]
                return [('do', lambda: c.emit(
                    'hello-c', {'ns': ns, 'b': b'\x00hi'}, namespace=ns,
                    callback=lambda *a: hello_cb.setdefault(ns, []).append(
                        list(a)))), ('ret', None)]
            if label[3] in ('connect', 'disconnect'):
                return [('ret', None)]
            # the i-th ordinary invocation at this receiver answers with the
            # i-th message's generated return value (per-pair FIFO is checked
            # separately through the recorded arguments)
            i = counters[who]
            counters[who] += 1
            ev['idx'] = i
            lst = rets[who]
            # the handler may take a while (seeded); later messages arrive
            # meanwhile
            pause = w.choices.pick('app', (0.0, 0.0, 0.001, 0.004, 0.02),
                                   'hpause')
            return [('pause', pause), ('ret', lst[i] if i in lst else None)]
        return plan
    coroutine = cfg['coroutine'] and w.mode == 'async'
    for who, target, client in (('s', srv, False), ('c', c, True)):
        plan = make_plan(who)
        for ns in cfg['nss']:
            if cfg['style'] == 'func':
                for ei, evn in enumerate(events + ['connect', 'disconnect']):
                    co = coroutine
                    if cfg.get('mixed_kinds') and w.mode == 'async' and \
                            ei % 2:
                        co = not co
                    target.on(evn, w.make_handler((who, 'func', ns, evn),
                                                  plan, co),
                              namespace=ns)
            else:
                if w.mode == 'async':
                    base = socketio.AsyncClientNamespace if client \
                        else socketio.AsyncNamespace
                else:
                    base = socketio.ClientNamespace if client \
                        else socketio.Namespace
                target.register_namespace(w.make_namespace(
                    ns, events + ['connect', 'disconnect'], plan, server=who,
                    coroutine=coroutine, base=base))
    if cfg.get('connect_emits'):
        for ns in cfg['nss']:
            srv.on('hello-c', lambda sid, data: ('welcome', data),
                   namespace=ns)
    h = w.call(c.connect, 'http://s', transports=['websocket'],
               namespaces=all_nss, wait_timeout=5)
    w.settle()
    if h.exc is not None or not c.connected:
        return {'harness': 'connect failed: %r' % (h.exc,)}
    if cfg.get('connect_emits'):
        w.advance(0.1)
        for ns in cfg['nss']:
            want = [['welcome', {'ns': ns, 'b': b'\x00hi'}]]
            got = hello_cb.get(ns, [])
            if not typed_eq(got, want):
                v.add('callback_from_connect_handler', 'the connect handler '
                      'of %s emitted with a callback; the server answered '
                      '%s, the callback received %s'
                      % (ns, trepr(want[0]), trepr(got)),
                      'none' if not got else 'other')
    sids = dict(c.namespaces)
    results = {'c2s': [], 's2c': []}
    nontrivial = False

    def sender(direction, msgs):
        """One sender issues its messages one after another."""
        recv = 's' if direction == 'c2s' else 'c'
        out = results[direction]
        is_async = w.mode == 'async'

        def mk_cb(i):
            def cb(*a):
                rec.add('cb', dir=direction, i=i, args=a)
                out[i]['cb'] = list(a)
            return cb
        for i, m in enumerate(msgs):
            rets[recv][i] = m['ret']
            out.append({})

        async def a_run():
            for i, m in enumerate(msgs):
                await one(i, m, True)

        def t_run():
            for i, m in enumerate(msgs):
                r = one(i, m, False)

        def one(i, m, is_async):
            kind = m['kind']
            if kind == 'call' and direction == 's2c' and \
                    not cfg['async_handlers']:
                # Server.call() is documented to need async_handlers=True
                kind = 'emit_cb'
                m['kind'] = 'emit_cb'
            ns = m['ns']
            kw = {'namespace': ns}
            if direction == 's2c':
                kw['to'] = sids[ns]
                tgt = srv
            else:
                tgt = c
            if kind in ('emit_cb', 'send_cb'):
                kw['callback'] = mk_cb(i)
            if kind.startswith('emit'):
                r = tgt.emit(m['event'], m['payload'], **kw)
            elif kind.startswith('send'):
                r = tgt.send(m['payload'], **kw)
            else:
                r = tgt.call(m['event'], m['payload'], timeout=30, **kw)
            if is_async:
                async def fin():
                    try:
                        val = await r
                        if kind == 'call':
                            out[i]['call'] = ('ok', val)
                    except Exception as e:   # noqa
                        out[i]['exc'] = e
                return fin()
            if kind == 'call':
                out[i]['call'] = ('ok', r)
            return None

        def t_run_safe():
            for i, m in enumerate(msgs):
                try:
                    one(i, m, False)
                except Exception as e:   # noqa
                    out[i]['exc'] = e
        return w.call(a_run if is_async else t_run_safe,
                      _label=('sender', direction))

    phases = [(d, case[d], v.add) for d in ('c2s', 's2c')]
    look = case.get('lookalike')
    look_mark = [None, 0]

    def add_look(clause, detail, qual=''):
        # violations of the extra phase: the known placeholder ambiguity of
        # the default (JSON) encoding; with msgpack bytes travel in-band and
        # nothing may go wrong
        if cfg['msgpack']:
            v.add(clause, detail, qual)
        else:
            v.add('placeholder_lookalike', detail, clause)
    if look:
        phases.append((look['dir'], [look], add_look))
    for direction, msgs, vadd in phases:
        recv = 's' if direction == 'c2s' else 'c'
        counters[recv] = 0
        rets[recv].clear()
        results[direction] = []
        if vadd is add_look:
            look_mark[0] = rec.seq
            look_mark[1] = len(w.kernel.thread_errors) \
                if w.mode == 'thread' else 0
        n0 = rec.seq
        hs = sender(direction, msgs)
        if cfg.get('spare_drop') and direction == 'c2s' and \
                SPARE in c.namespaces and vadd is not add_look:
            w.after(w.choices.pick('app', (0.0005, 0.002, 0.005, 0.015),
                                   'spare'),
                    lambda: w.api('s', 'disconnect', sids[SPARE],
                                  namespace=SPARE))
            rec.count('fault.server_ends_spare_namespace')
        w.settle(horizon=1.0)
        w.advance(1.0)
        if not hs.done:
            vadd('sender_stuck', direction)
        if hs.exc is not None:
            vadd('sender_raised', '%s: %r' % (direction, hs.exc),
                  type(hs.exc).__name__)
        inv = [e for e in rec.events if e['seq'] > n0
               and e['kind'] == 'h_enter' and e['label'][0] == recv
               and e['label'][3] not in ('connect', 'disconnect')]
        if len(inv) != len(msgs):
            vadd('invocation_count', '%s: %d messages sent, %d handler '
                  'invocations at the receiver' % (direction, len(msgs),
                                                   len(inv)),
                  'less' if len(inv) < len(msgs) else 'more')
        for i, m in enumerate(msgs):
            if _has_shape(m['payload']) or _has_shape(m['ret']):
                nontrivial = True
            if i >= len(inv):
                break
            e = inv[i]
            want = expect_args(m['payload'])
            if direction == 'c2s':
                want = [sids[m['ns']]] + want
            if e['label'][2] != m['ns'] or e['label'][3] != m['event']:
                vadd('order_or_routing', '%s message %d (%s on %s) was '
                      'handled by %s' % (direction, i, m['event'], m['ns'],
                                         e['label']))
                continue
            if not typed_eq(list(e['args']), want):
                vadd('arguments', '%s message %d %s(%s): handler received '
                      '%s, expected %s' % (direction, i, m['kind'],
                                           trepr(m['payload']),
                                           trepr(list(e['args'])),
                                           trepr(want)), direction)
            r = results[direction][i]
            if 'exc' in r:
                vadd('api_raised', '%s message %d: %r' % (direction, i,
                                                           r['exc']),
                      type(r['exc']).__name__)
                continue
            want_ack = expect_args(m['ret'])
            if m['kind'] in ('emit_cb', 'send_cb'):
                if 'cb' not in r:
                    vadd('callback_missing', '%s message %d' % (direction,
                                                                 i))
                elif not typed_eq(r['cb'], want_ack):
                    vadd('callback_arguments', '%s message %d: handler '
                          'returned %s, callback received %s, expected %s'
                          % (direction, i, trepr(m['ret']), trepr(r['cb']),
                             trepr(want_ack)), direction)
            elif m['kind'] == 'call':
                if 'call' not in r:
                    vadd('call_missing', '%s message %d' % (direction, i))
                else:
                    wantc = shape_call_result(want_ack)
                    if not typed_eq(r['call'][1], wantc):
                        vadd('call_result', '%s message %d: handler '
                              'returned %s, call() gave %s, expected %s'
                              % (direction, i, trepr(m['ret']),
                                 trepr(r['call'][1]), trepr(wantc)),
                              direction)
    la = cfg.get('late_ack')
    if la and look_mark[0] is None and (la == 'c2s' or
                                        cfg['async_handlers']):
        ns = cfg['nss'][0]
        recv_t, who = (srv, 's') if la == 'c2s' else (c, 'c')
        recv_t.on('slow', w.make_handler((who, 'func', ns, 'slow'),
                                         make_plan(who),
                                         w.mode == 'async'), namespace=ns)
        kw = {'namespace': ns}
        if la == 's2c':
            kw['to'] = sids[ns]
        snd = c if la == 'c2s' else srv
        h1 = w.call(snd.call, 'slow', 'A', timeout=0.05, **kw)
        w.settle(horizon=0.0)
        w.advance(0.08)
        rec.count('fault.call_timeout')
        h2 = w.call(snd.call, 'slow', 'B', timeout=5, **kw)
        w.advance(1.0)
        w.settle()
        if not h1.done or type(h1.exc).__name__ != 'TimeoutError':
            v.add('call_timeout', 'call() with a 0.05 s timeout to a handler '
                  'that takes 0.2 s: %r / %r' % (h1.result, h1.exc))
        if not h2.done or h2.exc is not None or h2.result != 'ans-B':
            v.add('call_result_after_timeout', '%s: after a call() that '
                  'timed out, the next call() returned %s / raised %r; its '
                  'handler returned %r' % (la, trepr(h2.result), h2.exc,
                                           'ans-B'), la)
    burst = case.get('burst')
    if burst and look_mark[0] is None:
        wp = w.add_peer('s')
        wp.open()
        w.settle()
        wsid = {}
        for ns in cfg['nss']:
            wp.send_pkt(sio.CONNECT, ns, None, None)
            w.settle()
            for r in wp.rx:
                if r['pkt'].type == sio.CONNECT and r['pkt'].nsp == ns:
                    wsid[ns] = r['pkt'].data['sid']
        counters['s'] = 0
        rets['s'].clear()
        n0 = rec.seq
        wp.post_pkts([(sio.EVENT, m['ns'], None,
                       [m['event']] + expect_args(m['payload']))
                      for m in burst if m['ns'] in wsid])
        w.settle(horizon=1.0)
        inv = [e for e in rec.events if e['seq'] > n0
               and e['kind'] == 'h_enter' and e['label'][0] == 's'
               and e['label'][3] not in ('connect', 'disconnect')]
        sent = [m for m in burst if m['ns'] in wsid]
        if len(inv) != len(sent):
            v.add('invocation_count', 'payload of %d events, %d handler '
                  'invocations' % (len(sent), len(inv)), 'burst')
        for i, m in enumerate(sent[:len(inv)]):
            e = inv[i]
            want = [wsid[m['ns']]] + expect_args(m['payload'])
            if e['label'][2] != m['ns'] or e['label'][3] != m['event']:
                v.add('order_or_routing', 'payload event %d (%s on %s) was '
                      'handled by %s' % (i, m['event'], m['ns'], e['label']),
                      'burst')
            elif not typed_eq(list(e['args']), want):
                v.add('arguments', 'payload event %d: handler received %s, '
                      'expected %s' % (i, trepr(list(e['args'])),
                                       trepr(want)), 'burst')
    for e in rec.errors:
        late = look_mark[0] is not None and e['seq'] > look_mark[0]
        (add_look if late else v.add)(
            'error_logged', '%s %s in %s' % (e['msg'], e.get('exc'),
                                             e.get('site')),
            '%s@%s' % ((e.get('exc') or e['msg']).split(':')[0][:40],
                       e.get('site')))
    if w.mode == 'thread':
        from sim.world import exc_site
        for n, (name, e) in enumerate(w.kernel.thread_errors):
            late = look_mark[0] is not None and n >= look_mark[1]
            (add_look if late else v.add)(
                'thread_raised', '%s: %r in %s' % (name, e, exc_site(e)),
                '%s@%s' % (type(e).__name__, exc_site(e)))
    return {'violations': v.items, 'digest': rec.digest.hex(),
            'nontrivial': nontrivial,
            'stats': {'messages': len(case['c2s']) + len(case['s2c']),
                      'net': {k: n for k, n in rec.counters.items()
                              if k.startswith('net.')}},
            'sim_time': w.now() - 1_700_000_000.0,
            'cfg': '%s/%s/%s' % (cfg['mode'],
                                 'msgpack' if cfg['msgpack'] else 'json',
                                 'b64' if cfg['transcode'] else 'ws'),
            'choices': w.choices.dump(), 'log': rec.dump_log()}
