"""C12 - hostile input from one client cannot touch other clients or stop the
server.

World: one real server (both kinds, default and msgpack serializers), 2-3
well-behaved bystanders with rooms, sessions and outstanding callbacks, one
offender wire peer, shared and separate namespaces.  Offender frames come from
grammar-based mutation of valid packets and from unstructured random text and
bytes; they are interleaved (in flight together) with bystander traffic.
Oracle: bystander traces equal the model's prediction from their own traffic;
frames the harness's own decoder rejects invoke no handler; bounded liveness
afterwards; memory growth per frame bounded by the bytes received."""
import tracemalloc

from sim import sio
from sim.world import make_world
from sim.util import typed_eq, wire_norm
from .common import (V, trepr, pkt_key, multiset_diff, ack_key, REAL_SERVER,
                     STUBS)
from .scene import Scene

PROP = 'C12'
RUNS = {'quick': 5000, 'thorough': 200000}
BUDGET = {'quick': 100, 'thorough': 1500}
RULE = ('one run = 10-40 offender frames (grammar mutations of valid packets, '
        'hostile templates, random text/bytes) interleaved with events, '
        'acks, room emits and callbacks of 2-3 bystanders; non-trivial = at '
        'least one frame was rejected by the harness decoder while bystander '
        'traffic was in flight; distinct = distinct SHA-256 of the event log')
REAL = REAL_SERVER
ASSUMPTIONS = ['E1', 'E2', 'application handlers do not broadcast, so a '
               'well-formed offender event legitimately affects nobody else']
SHRINK_LISTS = ['ops']
NSS = ['/', '/a', '/b']
LATS = [(0.0,), (0.0, 0.001, 0.003), (0.0, 0.0005, 0.002, 0.006)]

HOSTILE = [
    '2', '2[', '2[]', '2{"a":1}', '2"str"', '2 5', '25', '2[1]', '2[null]',
    '2[["x"]]', '2[{}]', '2[true,1]', '21[]', '2/a', '2/a,', '2/a,[', '2,',
    '2-', '2/', '2?', '2/a?x=1,["ev"]', '2/nowhere,["ev",1]',
    '4"oops"', '4{"message":"x"}', '7', '9["ev"]', '8', 'x', '', ' ',
    '0', '0/a', '0/a,{"x":1}', '0/nowhere', '0/a,[1]', '0"str"', '0{', '00',
    '1', '1/a', '1/nowhere', '1/a,{"x":1}',
    '3', '3[]', '31', '31[]', '3/a,1[]', '30[]', '3' + '9' * 100 + '[]',
    '3' + '9' * 101 + '[]', '3[1', '3null',
    '51-["ev",{"_placeholder":true,"num":0}]',
    '51-["ev",{"_placeholder":true,"num":5}]',
    '51-["ev",{"_placeholder":true,"num":-1}]',
    '51-["ev",{"_placeholder":true,"num":"x"}]',
    '51-["ev",{"_placeholder":true,"num":1e9}]',
    '51-["ev",{"_placeholder":true}]',
    '50-["ev"]', '5-["ev"]', '5["ev"]', '51["ev"]', '5١-["ev"]', '5３-["ev"]',
    '5' + '9' * 9 + '-["ev"]', '5' + '9' * 10 + '-["ev"]',
    '5' + '9' * 11 + '-["ev"]', '5' + '1' * 120 + '-["ev"]',
    '599999-/a,7["ev",{"_placeholder":true,"num":0}]',
    '61-1[{"_placeholder":true,"num":0}]', '61-[{"_placeholder":true,'
    '"num":0}]', '62-/a,1[]',
    '2' + '[' * 1000, '2' + '[' * 1000 + ']' * 1000,
    '2["ev",' + '{"a":' * 500 + '1' + '}' * 500 + ']',
    '2["connect"]', '2["disconnect"]', '2/a,["disconnect","x"]',
    '2["ev","\ud800"]', '2["ev",1e999]', '2["ev",NaN]', '2["ev",-0]',
    '2["\\u0000"]', '2[""]', '2["*"]',
]


def gen(rng, tier):
    mode = rng.choice(['async', 'async', 'thread'])
    cfg = {'mode': mode, 'msgpack': rng.random() < 0.25,
           'lat': rng.randrange(len(LATS)),
           'async_handlers': rng.random() < 0.5,
           'policy': rng.choice(['fifo', 'random']),
           'mem': rng.random() < 0.15,
           'nby': rng.randrange(2, 4)}
    n = rng.randrange(10, 30) if tier == 'quick' else rng.randrange(10, 45)
    ops = []
    tok = 0
    for _ in range(n):
        burst = []
        for _ in range(rng.randrange(1, 5)):
            k = rng.random()
            tok += 1
            if k < 0.04:
                burst.append(['off_reopen'])
            elif k < 0.08:
                # well-formed packets of the offender in ONE polling
                # payload, handled back to back by the server: events
                # followed by its own DISCONNECT (or CONNECT again)
                ns = rng.choice(['/', '/b'])
                pk = [[2, ns, rng.choice([None, 3]), ['ev', 'O%d' % tok, 1]]
                      for _ in range(rng.randrange(1, 3))]
                pk.append(rng.choice([[1, ns, None, None],
                                      [1, ns, None, None],
                                      [0, ns, None, None]]))
                if rng.random() < 0.3:
                    pk.append([2, ns, None, ['ev', 'O%db' % tok, 2]])
                burst.append(['off_burst', pk])
            elif k < 0.5:
                burst.append(['off', gen_offender_frame(rng, cfg['msgpack'])])
            elif k < 0.75:
                burst.append(['by_event', rng.randrange(cfg['nby']),
                              rng.choice(NSS[:2]), 'B%d' % tok,
                              rng.choice([None, 1, 7, 0]),
                              rng.random() < 0.4])
            elif k < 0.83:
                burst.append(['room_emit', rng.choice(NSS[:2]), 'R%d' % tok])
            elif k < 0.86:
                # an emit with a callback to a room the offender is in too
                burst.append(['room_cb', '/', 'Q%d' % tok])
            elif k < 0.865 and not cfg['msgpack']:
                # a complete binary event whose placeholder refers to an
                # attachment that does not exist (or is no index at all)
                burst.append(['off_bad_ph', 'OB%d' % tok,
                              rng.choice([7, 1, '0', 2.5, None, [0], {}])])
            elif k < 0.88:
                # an emit with a callback to the OFFENDER; the callback
                # relays the answer to a bystander (and takes a moment);
                # the offender answers twice
                burst.append(['relay_cb', rng.randrange(cfg['nby']),
                              'Y%d' % tok, rng.random() < 0.5])
            elif k < 0.94:
                burst.append(['cb_emit', rng.randrange(cfg['nby']),
                              rng.choice(NSS[:2]), 'G%d' % tok])
            else:
                burst.append(['by_ack', rng.randrange(cfg['nby'])])
        ops.append(burst)
    if cfg['msgpack'] and rng.random() < 0.4:
        # aimed (msgpack carries any integer as an ack id): a callback is
        # outstanding for the offender, it answers with an id no server ever
        # issued (negative / huge), then the room is used again
        import msgpack as mp
        at = rng.randrange(len(ops) + 1)
        bad = rng.choice([-1, -1, 0, -2, 2 ** 63, 10 ** 18])
        ops[at:at] = [[['off_reopen']],
                      [['room_cb', '/', 'Qa%d' % tok]],
                      [['off', ['bin', mp.packb({'type': 3, 'nsp': '/',
                                                 'id': bad, 'data': []})]]],
                      [['room_cb', '/', 'Qb%d' % tok],
                       ['room_emit', '/', 'Rb%d' % tok]]]
    return {'cfg': cfg, 'ops': ops}


def gen_offender_frame(rng, msgpack):
    """-> ['text', str] | ['bin', bytes] | ['seq', [frames]]"""
    if msgpack:
        import msgpack as mp
        k = rng.random()
        if k < 0.3:
            return ['bin', bytes(rng.randrange(256)
                                 for _ in range(rng.randrange(0, 30)))]
        base = {'type': rng.choice([0, 1, 2, 3, 4, 5, 6, 7, -1, 'x', None,
                                    2.5, [2]]),
                'nsp': rng.choice(['/', '/a', '/nowhere', None, 5, ['/'],
                                   '']),
                'data': rng.choice([['ev', 1], ['ev'], [], None, 'str', 5,
                                    {'a': 1}, [None], [['x']], [1, 2],
                                    ['ev', b'\x00']]),
                'id': rng.choice([None, 0, 1, -1, 2**63, 'x', [1], 1.5,
                                  {'a': 1}])}
        if rng.random() < 0.3:
            del base[rng.choice(sorted(base))]
        if rng.random() < 0.15:
            return ['bin', mp.dumps(rng.choice([5, 'x', [1, 2], None,
                                                [base]]))]
        b = mp.dumps(base)
        if rng.random() < 0.2:
            b = b[:rng.randrange(len(b))]
        return ['bin', b]
    k = rng.random()
    if k < 0.45:
        return ['text', rng.choice(HOSTILE)]
    if k < 0.55:
        return ['bin', bytes(rng.randrange(256)
                             for _ in range(rng.randrange(0, 20)))]
    if k < 0.65:
        return ['text', ''.join(rng.choice('0123456789-,/?[]{}":aé \\')
                                for _ in range(rng.randrange(0, 25)))]
    # grammar mutation of a valid frame
    valid = sio.encode(rng.choice([sio.EVENT, sio.EVENT, sio.ACK,
                                   sio.CONNECT, sio.DISCONNECT]),
                       rng.choice(['/', '/a', '/b', '/nowhere']),
                       rng.choice([None, 0, 1, 12, 10**20]),
                       rng.choice([['ev', 1], ['ev', {'a': b'xy'}],
                                   ['ev', [b'a', b'b']], [1, 2], {'k': 'v'},
                                   None, ['ev', 'X1', {'n': [1, 2, 3]}]]))
    s = valid[0]
    m = rng.randrange(8)
    if len(s) > 1:
        i = rng.randrange(len(s))
        j = min(len(s), i + rng.randrange(1, 4))
        if m == 0:
            s = s[:i] + s[j:]
        elif m == 1:
            s = s[:i] + s[i:j] * 2 + s[j:]
        elif m == 2:
            s = s[:1] + '9' * rng.choice([1, 5, 10, 11, 50, 120]) + s[1:]
        elif m == 3:
            s = s[:i] + rng.choice(['-', ',', '/', '?', '٣', '３', '"', '\\'
                                    ]) + s[i:]
        elif m == 4:
            s = s[:i]
        elif m == 5:
            s = s.replace('"num":0', '"num":%s' % rng.choice(
                ['7', '-1', '"0"', 'null', '1.5', '[0]']))
        elif m == 6:
            s = rng.choice('3456789') + s[1:]
        # m == 7: unchanged header, attachments dropped or extra
    frames = [s] + valid[1:]
    if m == 7 and len(frames) > 1:
        frames = frames[:-1] if rng.random() < 0.5 else frames + [b'extra']
    if len(frames) == 1:
        return ['text', frames[0]]
    return ['seq', frames]


def sample(case):
    return {'cfg': case['cfg'], 'ops': case['ops'][:6]}


def run(case):
    cfg = case['cfg']
    w = make_world(cfg['mode'], seed=case['seed'],
                   choices_replay=case.get('choices'),
                   lat=LATS[cfg['lat']], msgpack=cfg['msgpack'],
                   policy=cfg['policy'])
    try:
        return _run(case, cfg, w)
    finally:
        w.close()
        if tracemalloc.is_tracing():
            tracemalloc.stop()


def _run(case, cfg, w):
    v = V(PROP)
    msgpack = cfg['msgpack']
    srv = w.add_server('s', async_handlers=cfg['async_handlers'],
                       namespaces=list(NSS))

    def plan(label, args, ev):
        if label[3] == 'ev':
            tok = args[1] if len(args) > 1 else None
            return [('ret', ['ok', tok])]
        return [('ret', None)]
    for ns in NSS:
        for evn in ('connect', 'disconnect', 'ev'):
            srv.on(evn, w.make_handler(('s', 'func', ns, evn), plan),
                   namespace=ns)
    sc = Scene(w)
    nby = cfg['nby']
    by_sids = {}                 # (b, ns) -> sid
    for b in range(nby):
        sc.open(b)
        for ns in NSS[:2]:
            sid = sc.connect(b, ns)
            if sid is None:
                v.add('bystander_cannot_connect', 'bystander %d on %s was '
                      'not accepted' % (b, ns))
                return {'violations': v.items, 'digest': w.rec.digest.hex(),
                        'nontrivial': False, 'stats': {}, 'sim_time': 0.0,
                        'cfg': 'setup', 'choices': w.choices.dump(),
                        'log': w.rec.dump_log()}
            by_sids[(b, ns)] = sid
            srv_call(w, 'enter_room', sid, 'lobby', namespace=ns)
            srv_call(w, 'save_session', sid, {'owner': b, 'ns': ns},
                     namespace=ns)
    off = sc.open('off')
    off_sids = set()
    for ns in ('/', '/b'):
        s = sc.connect('off', ns)
        if s:
            off_sids.add(s)
            if ns == '/':
                srv_call(w, 'enter_room', s, 'lobby', namespace=ns)
    w.settle()
    for pe in w.peers:
        for r in pe.rx:
            r['absorbed'] = True
    all_by_sids = set(by_sids.values())
    expected_rx = {b: [] for b in range(nby)}
    expected_inv = {}            # tok -> (b, ns)
    outstanding = {}             # b -> list of (ns, id, tag)
    cb_expected = {}
    cb_log = []
    tainted = [False]
    nontrivial = False
    stats = {'offender_frames': 0, 'rejected_by_harness_decoder': 0,
             'wellformed': 0, 'mem_checked': 0}
    mem_on = cfg['mem']
    if mem_on:
        tracemalloc.start()

    room_ops = []
    room_cb_expected = {}
    room_cb_log = []
    off_text = []

    def make_room_cb(tag):
        def cb(*args):
            w.rec.add('room_cb', tag=tag, args=args)
            room_cb_log.append((tag, list(args)))
        return cb

    def make_cb(tag):
        def cb(*args):
            w.rec.add('cb', tag=tag, args=args)
            cb_log.append((tag, list(args)))
        return cb

    def harness_decodes(frame):
        """False only for frames that no reading of the protocol can decode
        (the clause 'input that cannot be decoded never reaches a handler'
        is claimed for those only; where the implementation's scanner is
        merely more liberal than the harness's - unicode digits as type,
        nsp missing in msgpack meaning '/', odd attachment counts - no claim
        is made)."""
        if msgpack:
            try:
                import msgpack as mp
                d = mp.loads(frame)
            except Exception:
                return False
            if not isinstance(d, dict) or 'type' not in d or 'nsp' not in d:
                return False
            t = d['type']
            try:
                if t in (0, 1, 2, 3, 4, 5, 6):
                    return True
            except Exception:
                pass
            return False
        if not isinstance(frame, str):
            return False
        if frame == '':
            return False
        try:
            import json as _json
            if not isinstance(_json.loads(frame), str):
                # engine.io hands JSON-decodable message bodies to socketio
                # as numbers / lists / dicts, and socketio reads an integer
                # as a bare packet type: a liberal reading, no claim
                return True
        except ValueError:
            pass
        c = frame[0]
        if not c.isdigit() or int(c) > 6:
            return False
        if any(ch.isdigit() and not ch.isascii() for ch in frame):
            return True     # unicode digits: scanners may differ, no claim
        if c in '01234':
            j = 1
            while j < len(frame) and frame[j].isdigit():
                j += 1
            if j > 1 and frame[j:j + 1] == '-':
                return True   # "<type><digits>-...": the server's scanner
                #               reads an attachment count here; no claim
            try:
                sio.decode_header(frame)
            except Exception:
                return False
        return True

    def learn_ids(mark):
        for pe, pk in sc.since(mark):
            if pk.base == sio.EVENT and isinstance(pk.data, list) and \
                    pk.data[:1] == ['q'] and pk.id is not None:
                b = getattr(pe, 'label', None)
                tag = pk.data[1]
                lst = outstanding.setdefault(b, [])
                if not any(t == tag for _, _, t in lst):
                    lst.append((pk.nsp, pk.id, tag))

    for bi, burst in enumerate(case['ops']):
        mark = sc.mark()
        n_enter0 = len(w.rec.of('h_enter'))
        burst_has_by = any(o[0] not in ('off', 'off_reopen', 'off_burst')
                           for o in burst)
        rejected_only = True
        off_bytes = 0
        tainted_before = tainted[0]
        if mem_on:
            tracemalloc.reset_peak()
            base_mem = tracemalloc.get_traced_memory()[0]
        for o in burst:
            k = o[0]
            if k in ('off_reopen', 'relay_cb', 'off_bad_ph'):
                # (relay_cb: the offender starts from a clean transport, so
                # that its two ACKs are not swallowed as attachments of
                # something it left half-sent)
                if sc.alive('off'):
                    off.sever(0.0)
                    w.settle()
                off = sc.open('off')
                s_ = sc.connect('off', '/')
                if s_:
                    srv_call(w, 'enter_room', s_, 'lobby', namespace='/')
                    for r in off.rx:
                        r['absorbed'] = True
                tainted[0] = False
                rejected_only = False
            if k == 'off_reopen':
                pass
            elif k == 'off_burst':
                rejected_only = False
                if sc.alive('off'):
                    off.post_pkts([tuple(x) for x in o[1]])
                    w.rec.count('fault.offender_polling_payload')
                # it may have left / re-joined namespaces: no claim about
                # what of its own input reaches its own handlers afterwards
                tainted[0] = True
            elif k == 'off':
                kind, payload = o[1]
                frames = payload if kind == 'seq' else [payload]
                stats['offender_frames'] += 1
                for f in frames:
                    off_bytes += len(f) if isinstance(f, (bytes, str)) else 0
                    ok = harness_decodes(f) if (isinstance(f, str) or msgpack) \
                        else False
                    if ok:
                        rejected_only = False
                        stats['wellformed'] += 1
                    else:
                        stats['rejected_by_harness_decoder'] += 1
                    if not msgpack and isinstance(f, str) and f[:1].isdigit() \
                            and int(f[:1]) in (5, 6):
                        # from here on the server may be waiting for
                        # attachments of this transport (its scanner is more
                        # liberal than the harness decoder and the count is
                        # its own business): any later frame may complete a
                        # packet, so the "undecodable input" clause makes no
                        # claim until the offender opens a new transport
                        tainted[0] = True
                off_text.extend(f for f in frames if isinstance(f, str))
                if sc.alive('off'):
                    off.send_frames(frames)
            elif k == 'by_event':
                _, b, ns, tok, id_, binary = o
                if not sc.alive(b):
                    continue
                args = [tok, {'bin': b'\x01\x02'}] if binary else [tok, 5]
                sc.peers[b].send_pkt(sio.EVENT, ns, id_, ['ev'] + args)
                expected_inv[tok] = (b, ns, args)
                if id_ is not None:
                    expected_rx[b].append(ack_key(msgpack, ns, id_,
                                                  [['ok', tok]]))
            elif k == 'room_emit':
                _, ns, tag = o
                w.api('s', 'emit', 'news', tag, to='lobby', namespace=ns)
                for b in range(nby):
                    expected_rx[b].append(pkt_key(sio.Pkt(
                        sio.EVENT, ns, None, ['news', tag])))
            elif k == 'room_cb':
                _, ns, tag = o
                h = w.api('s', 'emit', 'q', tag, to='lobby', namespace=ns,
                          callback=make_room_cb(tag))
                room_ops.append((tag, h))
                for b in range(nby):
                    expected_rx[b].append(('EVENT', ns, 'ANYID', trepr(
                        ['q', tag])))
            elif k == 'off_bad_ph':
                _, tok2, num = o
                import json as _json
                n_enter1 = len(w.rec.of('h_enter'))
                hdr = '51-' + _json.dumps(
                    ['ev', tok2, {'_placeholder': True, 'num': num}])
                off.send_frames([hdr, b'x'])
                w.settle()
                w.rec.count('fault.illegal_attachment_reference')
                bad = [e for e in w.rec.of('h_enter')[n_enter1:]
                       if tok2 in [a for a in e['args']
                                   if isinstance(a, str)]]
                if bad:
                    v.add('illegal_attachment_reference_reached_handler',
                          'binary event %s + 1 attachment invoked %s with %s'
                          % (hdr, bad[0]['label'], trepr(bad[0]['args'])))
                rejected_only = False
                tainted[0] = True
            elif k == 'relay_cb':
                _, b, tag, one_payload = o
                osid = sc.sid('off', '/')
                if not osid or not sc.alive('off') or tainted[0] or \
                        not sc.alive(b):
                    continue
                bsid = by_sids[(b, '/')]
                if w.mode == 'async':
                    async def relay(*a, tag=tag, bsid=bsid):
                        import asyncio
                        await srv.emit('relay', tag, to=bsid, namespace='/')
                        await asyncio.sleep(0.005)
                else:
                    def relay(*a, tag=tag, bsid=bsid):
                        srv.emit('relay', tag, to=bsid, namespace='/')
                        w.kernel.sleep(0.005)
                n0 = len(off.rx)
                w.api('s', 'emit', 'q', tag, to=osid, namespace='/',
                      callback=relay)
                w.settle()
                ids = [r['pkt'].id for r in off.rx[n0:]
                       if r['pkt'].base == sio.EVENT
                       and r['pkt'].data == ['q', tag]]
                if ids and ids[0] is not None:
                    w.rec.count('fault.offender_replays_ack')
                    # (python-socketio has engine.io deliver one client's
                    # messages one after the other; the replay is handled
                    # concurrently only if it comes in on a second channel,
                    # an HTTP POST to the session)
                    if one_payload:
                        off.post_pkts([(sio.ACK, '/', ids[0], [tag])])
                        off.send_pkt(sio.ACK, '/', ids[0], [tag])
                    else:
                        off.send_pkt(sio.ACK, '/', ids[0], [tag])
                        off.post_pkts([(sio.ACK, '/', ids[0], [tag])])
                    expected_rx[b].append(pkt_key(sio.Pkt(
                        sio.EVENT, '/', None, ['relay', tag])))
                    rejected_only = False
                    w.settle()     # (before the offender does anything else)
            elif k == 'cb_emit':
                _, b, ns, tag = o
                sid = by_sids[(b, ns)]
                w.api('s', 'emit', 'q', tag, to=sid, namespace=ns,
                      callback=make_cb(tag))
                expected_rx[b].append(('EVENT', ns, 'ANYID', trepr(
                    ['q', tag])))
            elif k == 'by_ack':
                b = o[1]
                lst = outstanding.get(b, [])
                if lst and sc.alive(b):
                    ns, id_, tag = lst.pop(0)
                    if tag.startswith('Q'):
                        # room callback: one invocation per acknowledging
                        # member, told apart by the payload
                        key = '%s/by%d' % (tag, b)
                        sc.peers[b].send_pkt(sio.ACK, ns, id_, [key, 'done'])
                        room_cb_expected[key] = [key, 'done']
                    else:
                        sc.peers[b].send_pkt(sio.ACK, ns, id_, [tag, 'done'])
                        cb_expected[tag] = [tag, 'done']
        w.settle()
        learn_ids(mark)
        if mem_on and off_bytes:
            cur, peak = tracemalloc.get_traced_memory()
            stats['mem_checked'] += 1
            # everything the harness itself allocates for the burst (event
            # log, frames) is included, hence the generous constants; a
            # reservation proportional to a declared count or id would be
            # orders of magnitude above
            allowed = 600_000 + 400 * off_bytes
            if peak - base_mem > allowed:
                v.add('memory_proportional_to_declared_size',
                      'burst %d: peak grew by %d bytes for %d offender bytes'
                      % (bi, peak - base_mem, off_bytes))
        if burst_has_by and stats['rejected_by_harness_decoder']:
            nontrivial = True
        # frames the harness decoder rejects never reach a handler
        if rejected_only and not tainted_before and not tainted[0] and \
                not burst_has_by and any(o[0] == 'off' for o in burst):
            new = w.rec.of('h_enter')[n_enter0:]
            if new:
                v.add('undecodable_input_reached_handler',
                      'burst %d %s invoked %s'
                      % (bi, [o[1] for o in burst if o[0] == 'off'][:3],
                         [(e['label'], trepr(e['args'])) for e in new][:3]))
    # ---------------------------------------------------------- liveness
    w.settle()
    for b in range(nby):
        for ns in NSS[:2]:
            tok = 'L%d%s' % (b, ns)
            sc.peers[b].send_pkt(sio.EVENT, ns, 4242, ['ev', tok, 5])
            expected_inv[tok] = (b, ns, [tok, 5])
            expected_rx[b].append(ack_key(msgpack, ns, 4242, [['ok', tok]]))
    for ns in NSS[:2]:
        w.api('s', 'emit', 'news', 'final', to='lobby', namespace=ns)
        for b in range(nby):
            expected_rx[b].append(pkt_key(sio.Pkt(sio.EVENT, ns, None,
                                                  ['news', 'final'])))
    w.settle()
    # ---------------------------------------------------------- oracle
    enters = w.rec.of('h_enter')
    seen_tok = {}
    issued_sids = set(all_by_sids)
    for pe in w.peers:
        for r in pe.rx:
            if r['pkt'].type == sio.CONNECT and isinstance(r['pkt'].data,
                                                           dict):
                issued_sids.add(r['pkt'].data.get('sid'))
    for e in enters:
        if e['args'] and e['args'][0] not in issued_sids:
            v.add('handler_invoked_for_nonexistent_session',
                  '%s ran with %s' % (e['label'], trepr(e['args'])[:200]),
                  e['label'][3])
    for e in enters:
        if e['label'][3] != 'ev':
            if e['label'][3] in ('connect', 'disconnect') and \
                    e['args'][0] in all_by_sids and e['seq'] > 0 and \
                    not e.get('setup') and e['label'][3] == 'disconnect':
                v.add('bystander_disconnected', trepr(e['args']))
            continue
        sid = e['args'][0]
        if sid in all_by_sids:
            tok = e['args'][1] if len(e['args']) > 1 else None
            exp = expected_inv.get(tok)
            if exp is None:
                v.add('handler_invoked_on_behalf_of_bystander',
                      'sid %s args %s' % (sid, trepr(e['args'])))
                continue
            b, ns, args = exp
            if by_sids[(b, ns)] != sid or not typed_eq(
                    list(e['args'][1:]), wire_norm(args)):
                v.add('bystander_event_corrupted', 'tok %s: got sid %s args '
                      '%s' % (tok, sid, trepr(e['args'])))
            seen_tok[tok] = seen_tok.get(tok, 0) + 1
    for tok, exp in expected_inv.items():
        n = seen_tok.get(tok, 0)
        if n != 1:
            v.add('bystander_event_invocations', '%s of bystander %d on %s '
                  'ran %d times' % (tok, exp[0], exp[1], n),
                  'got%d' % min(n, 2))
    for b in range(nby):
        pe = sc.peers[b]
        got = []
        for r in pe.rx:
            if r.get('absorbed'):
                continue
            pk = r['pkt']
            key = pkt_key(pk)
            if pk.base == sio.EVENT and isinstance(pk.data, list) and \
                    pk.data[:1] == ['q']:
                key = ('EVENT', pk.nsp, 'ANYID', trepr(pk.data))
            got.append(key)
        missing, surplus = multiset_diff(expected_rx[b], got)
        if missing:
            v.add('bystander_frames_missing', 'bystander %d lacks %s'
                  % (b, missing[:3]))
        if surplus:
            v.add('bystander_received_unexpected', 'bystander %d got %s'
                  % (b, surplus[:3]))
        if pe.transport_closed or pe.eio_closed:
            v.add('bystander_connection_closed', b)
    for (b, ns), sid in by_sids.items():
        rooms = srv.rooms(sid, ns)
        if sorted(map(str, rooms)) != sorted(['lobby', sid]):
            v.add('bystander_rooms_changed', '%s [%s]: %s' % (sid, ns, rooms))
        h = srv_call(w, 'get_session', sid, namespace=ns)
        if h.exc is not None or h.result != {'owner': b, 'ns': ns}:
            v.add('bystander_session_changed', '%s [%s]: %r %r'
                  % (sid, ns, h.result, h.exc))
    fired = {}
    for tag, args in cb_log:
        fired[tag] = fired.get(tag, 0) + 1
        if tag not in cb_expected:
            v.add('bystander_callback_fired_without_its_ack', tag)
        elif not typed_eq(args, cb_expected[tag]):
            v.add('bystander_callback_arguments', (tag, trepr(args)))
    for tag in cb_expected:
        if fired.get(tag, 0) != 1:
            v.add('bystander_callback_count', '%s fired %d times'
                  % (tag, fired.get(tag, 0)))
    # room emits with a callback: the offender is a legitimate recipient and
    # may acknowledge too (with anything); what is claimed is that the emit
    # does not fail and every bystander's acknowledgement still arrives once
    for tag, h in room_ops:
        if h.exc is not None:
            v.add('room_emit_with_callback_raised', '%s: %r' % (tag, h.exc),
                  type(h.exc).__name__)
    for key, want in room_cb_expected.items():
        n = sum(1 for t, a in room_cb_log if typed_eq(a, want))
        if any(key in f for f in off_text):
            continue
        if n != 1:
            v.add('bystander_room_callback_count', '%s fired %d times'
                  % (key, n), 'got%d' % min(n, 2))
    return {'violations': v.items, 'digest': w.rec.digest.hex(),
            'nontrivial': nontrivial, 'stats': {'frames': stats},
            'sim_time': w.now() - 1_700_000_000.0,
            'cfg': '%s/%s/ah=%s' % (cfg['mode'], 'msgpack' if msgpack
                                    else 'json', cfg['async_handlers']),
            'choices': w.choices.dump(), 'log': w.rec.dump_log()}


def _may_announce(f):
    """A text frame starting with 5 or 6 that the harness decoder refused:
    could the server's more liberal scanner still read an attachment count
    from it?  (digits followed by '-')."""
    j = 1
    while j < len(f) and f[j].isdigit():
        j += 1
    return j > 1 and f[j:j + 1] == '-'


def srv_call(w, name, *args, **kw):
    h = w.api('s', name, *args, **kw)
    w.settle()
    return h
