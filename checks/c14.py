"""C14 - the asyncio classes behave exactly like their threaded counterparts.

Differential simulation: one generated scenario is executed twice - in the
thread world (fifo policy) against the threaded classes and in the asyncio
world against their asyncio twins - with all latencies and pauses zero and
every operation run to quiescence, so that neither trace depends on a
schedule.  The scenarios are the workloads of the other checks (server +
wire peers, real clients + scripted server, two hosts on a bus, simple
client), i.e. sequences mixing client packets (valid and malformed), API
calls with every optional argument, severs and bus messages.  Oracle: equal
per-peer frame sequences, equal published bus messages, equal handler and
callback invocations with equal arguments, equal results / exception types of
every API call."""
import copy
import importlib
import random

from sim import world as simworld
from sim.choices import derive
from .common import V, trepr, REAL_SERVER, REAL_CLIENT, STUBS

PROP = 'C14'
RUNS = {'quick': 3000, 'thorough': 100000}
BUDGET = {'quick': 100, 'thorough': 1500}
RULE = ('one run = one scenario drawn from the workload generators of the '
        'other checks (C02-C09, C11, C12, C15, C16, C19), executed in the '
        'thread world and in the asyncio world with zero latencies/pauses; '
        'non-trivial = the scenario produced at least 10 comparable trace '
        'entries; distinct = distinct SHA-256 of the thread-world event log')
REAL = REAL_SERVER + REAL_CLIENT
ASSUMPTIONS = ['both traces are schedule-independent: ops run to quiescence, '
               'fifo thread policy, no pauses', 'E1', 'E2', 'E3']
HASHSEED_DEPENDENT = True   # connect(namespaces=None) iterates over a set
SHRINK_LISTS = []
SUBS = ['c03', 'c04', 'c05', 'c06', 'c11', 'c12', 'c16', 'c09', 'c08',
        'c02', 'c07', 'c15', 'c19', 'c14x']


def gen(rng, tier):
    sub = rng.choice(SUBS)
    return {'sub': sub, 'subseed': rng.randrange(10 ** 9)}


def sample(case):
    return {'sub': case['sub'], 'subseed': case['subseed']}


def build(case):
    mod = importlib.import_module('checks.' + case['sub'])
    rng = random.Random(derive(case['subseed'], 'gen', mod.PROP))
    sc = mod.gen(rng, 'quick')
    sc['seed'] = case['subseed']
    sc['choices'] = {}           # every seeded choice is the plain one
    cfg = sc['cfg']
    sub = case['sub']
    cfg['policy'] = 'fifo'
    if 'lat' in cfg:
        cfg['lat'] = 0
    if 'bp' in cfg:
        cfg['bp'] = 0
    # remove the pieces of a workload that are world-specific by design
    if sub == 'c03':
        for op in sc['ops']:
            if op[0] == 'emit':
                op[4] = None
    if sub == 'c04':
        ops = []
        for op in sc['ops']:
            if op[0] == 'race':
                op = list(op)
                op[3] = op[3][:1]
            if op[0] == 'ptimeout':
                continue
            ops.append(op)
        sc['ops'] = ops
        cfg['ping'] = False
        if cfg.get('disc_emits') or any(
                op[0] == 'race' and len(op) > 4 and op[4] for op in ops):
            cfg['coroutine'] = True     # awaited inline, like the threaded
            #                             twin runs it inline
    if sub == 'c06':
        cfg['malformed_acks'] = True
        cfg['raise_by_content'] = True
        # (when engine.io notices an expired ping depends on its reader,
        # which differs between its two implementations)
        sc['ops'] = [op for op in sc['ops'] if op[0] != 'sdisc_expired']
    if sub in ('c05', 'c09'):
        cfg['raise_by_content'] = True
    if sub == 'c11':
        if any(life.get('guest') for life in sc['lives']):
            # the nested disconnect issued by a disconnect handler is
            # awaited inline, like the threaded twin runs it inline
            cfg['coroutine'] = True
        cfg['growth'] = False
        cfg['send_pauses'] = False
        cfg['raise_by_content'] = True
        for life in sc['lives']:
            if life['end'] in ('sever_halfopen', 'ping_timeout',
                               'sdisc_ping_expired', 'emit_ping_expired',
                               'sdisc_race_sever'):
                life['end'] = 'sever'
    if sub == 'c08':
        if cfg.get('disc_emits') or cfg.get('connect_emits'):
            cfg['coroutine'] = True     # (the emit from the disconnect
            #                             handler is awaited inline)
    if sub == 'c12':
        cfg['mem'] = False
    if sub == 'c07':
        cfg['regime'] = 'immediate'
        cfg['lags'] = 0
    if sub == 'c15':
        cfg['lag'] = 0
    if sub == 'c19':
        cfg['pct_depth'] = 1
        # no two things at the same virtual instant (a produce step tied
        # with the completion of a reconnection is decided by the schedule)
        sc['producer'] = [[round(t + 0.0137 * (i + 1), 4), k, n]
                          for i, (t, k, n) in enumerate(sc['producer'])]
    return mod, sc


def run_in(mod, sc, mode):
    sc = copy.deepcopy(sc)
    sc['cfg']['mode'] = mode
    res = mod.run(sc)
    rec = simworld.LAST_RECS[-1]
    return res, rec


def normalise(rec):
    """Comparable, schedule-independent view of a run."""
    out = {}

    def put(key, val):
        out.setdefault(key, []).append(val)
    n = 0
    for e in rec.events[:getattr(rec, 'final_len', None)]:
        k = e['kind']
        if k == 'rx':
            put(('rx', e['peer']), trepr(e['pkt']))
        elif k == 'ss_rx':
            put(('ss_rx',), trepr(e['pkt']))
        elif k == 'h_enter':
            lab = e['label']
            a = e['args']
            # server-side handlers: one sequence per client (cross-client
            # order inside one burst depends on the schedule)
            who = None
            if lab[0] != 'c':
                for x in a[:3]:      # catch-alls put event / namespace first
                    if isinstance(x, str) and len(x) == 20:
                        who = x
                        break
            put(('h', trepr(lab), who), trepr(a))
        elif k == 'cb':
            put(('cb', e.get('tag')), trepr(e.get('args')))
        elif k == 'op_end':
            if e['op'] in ('_ainit', ('ss_send',), ('ss_close',), 'go',
                           'blk', 'consume', ('consumer',)):
                continue          # harness-internal helper operations
            r = e.get('result')
            x = e.get('exc')
            put(('op', trepr(e['op'])),
                ('exc', x.split(':')[0]) if x else ('ok', trepr(r)))
        elif k == 'bus_pub':
            put(('bus', e.get('origin')), e.get('method'))
        elif k == 'consumer':
            put(('consumer',), (e.get('step'), e.get('what'),
                                trepr(e.get('val'))))
        elif k == 'arrive':
            put(('arrive',), trepr(e.get('item')))
        elif k in ('peer_closed', 'peer_eio_close'):
            put((k, e['peer']), 1)
        else:
            continue
        n += 1
    if ('errors',) in out:
        out[('errors',)] = sorted(out[('errors',)])
    return out, n


def run(case):
    v = V(PROP)
    mod, sc = build(case)
    rt, rec_t = run_in(mod, sc, 'thread')
    ra, rec_a = run_in(mod, sc, 'async')
    if 'harness' in rt or 'harness' in ra:
        return {'harness': 'sub-scenario %s: %s' % (
            case['sub'], rt.get('harness') or ra.get('harness'))}
    nt, cnt = normalise(rec_t)
    na, cna = normalise(rec_a)
    if sc['cfg'].get('async_handlers', case['sub'] in ('c06', 'c07', 'c15',
                                                       'c19')):
        # background handlers: what a peer receives is compared after they
        # have all finished, as a multiset (their relative order to the
        # reader's own answers depends on the schedule)
        for d in (nt, na):
            for key in d:
                if key[0] in ('rx', 'ss_rx', 'h'):
                    d[key] = sorted(d[key])
    for key in sorted(set(nt) | set(na), key=repr):
        a, b = nt.get(key, []), na.get(key, [])
        if a != b:
            i = 0
            while i < min(len(a), len(b)) and a[i] == b[i]:
                i += 1
            v.add('traces_differ', 'scenario %s/%d: %s differs at entry %d: '
                  'threaded %s | asyncio %s'
                  % (case['sub'], case['subseed'], key, i,
                     trepr(a[i:i + 2]), trepr(b[i:i + 2])),
                  '%s:%s' % (case['sub'], key[0]))
    # both worlds must also agree on what the sub-check's own oracle says
    st = sorted({x['sig'] for x in rt.get('violations', [])})
    sa = sorted({x['sig'] for x in ra.get('violations', [])})
    from sim.runner import load_known, known_match
    known = load_known()
    if any(known_match(known, mod.PROP, x) for x in st + sa):
        # the scenario runs into a known finding of its own property (e.g.
        # the client left in an inconsistent state); what follows it is not
        # comparable and is reported by that property's check
        return {'violations': [], 'digest': rt.get('digest'),
                'nontrivial': False, 'stats': {'skipped_known_finding': 1},
                'sim_time': 0.0, 'cfg': case['sub'], 'choices': {},
                'log': []}
    if st != sa:
        v.add('oracle_verdicts_differ', 'scenario %s/%d: threaded %s | '
              'asyncio %s' % (case['sub'], case['subseed'], st, sa),
              case['sub'])
    return {'violations': v.items, 'digest': rt.get('digest'),
            'nontrivial': cnt >= 10, 'stats': {'compared_entries': cnt},
            'sim_time': rt.get('sim_time', 0.0) + ra.get('sim_time', 0.0),
            'cfg': case['sub'], 'choices': {}, 'log': []}
