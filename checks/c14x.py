"""C14 (extra sub-scenario) - a client with automatic reconnection against a
wire-level scripted server: emits with callbacks, call(), server events and
ACKs (right, repeated, from an earlier connection, never issued) interleaved
with transport losses after which the client reconnects by itself.

It has no oracle of its own: checks/c14.py runs it once with Client and once
with AsyncClient and compares what the server received (CONNECT packets, ack
ids, ACKs), which handlers and callbacks ran with which arguments, and what
the API calls returned or raised."""
from sim import sio
from sim.world import make_world
from .common import V

PROP = 'C14'
NSS = ['/', '/a']


def gen(rng, tier):
    nss = NSS[:rng.randrange(1, 3)]
    cfg = {'mode': 'thread', 'nss': nss, 'lat': 0,
           'attempts': rng.choice([0, 3])}
    ops = []
    tok = 0
    for _ in range(rng.randrange(6, 20)):
        tok += 1
        ns = rng.choice(nss)
        k = rng.random()
        if k < 0.25:
            ops.append(['emit_cb', ns, 'G%d' % tok])
        elif k < 0.32:
            ops.append(['call', ns, 'G%d' % tok, rng.choice([0.5, 2.0])])
        elif k < 0.40:
            ops.append(['emit', ns, 'E%d' % tok])
        elif k < 0.62:
            ops.append(['sack', ns, rng.choice(['right', 'right', 'prev',
                                                'prev', 'never', 'again'])])
        elif k < 0.75:
            ops.append(['sevent', ns, rng.choice([None, 0, 4]), 'T%d' % tok])
        elif k < 0.90:
            ops.append(['sever'])
        elif k < 0.95:
            ops.append(['sdisc', ns])
        else:
            ops.append(['adv', rng.choice([0.3, 1.0, 3.0])])
    return {'cfg': cfg, 'ops': ops}


def run(case):
    cfg = case['cfg']
    w = make_world(cfg['mode'], seed=case['seed'],
                   choices_replay=case.get('choices'), policy='fifo')
    try:
        return _run(case, cfg, w)
    finally:
        w.close()


def _run(case, cfg, w):
    v = V(PROP)
    rec = w.rec
    ss = w.add_scripted_server('s')
    gen_no = [0]

    def on_packet(eio_sid, p):
        if p.type == sio.CONNECT:
            gen_no[0] += 1
            return ss.send_pkt(sio.CONNECT, p.nsp, None,
                               {'sid': 'sid%d%s' % (gen_no[0], p.nsp)},
                               eio_sid=eio_sid)
    ss.on_packet = on_packet
    c = w.add_client('c', reconnection=True, reconnection_delay=0.2,
                     reconnection_delay_max=0.4, randomization_factor=0,
                     reconnection_attempts=cfg['attempts'])

    def plan(label, args, ev):
        if label[3] == 'ev':
            return [('ret', ['r', args[0] if args else None])]
        return [('ret', None)]
    for ns in cfg['nss']:
        for evn in ('connect', 'disconnect', 'ev', 'connect_error'):
            c.on(evn, w.make_handler(('c', 'func', ns, evn), plan,
                                     coroutine=False), namespace=ns)
    h = w.call(c.connect, 'http://s', transports=['websocket'],
               namespaces=list(cfg['nss']), wait_timeout=5)
    w.settle()
    if h.exc is not None or not c.connected:
        return {'harness': 'client failed to connect: %r' % (h.exc,)}

    def make_cb(tag):
        def cb(*args):
            rec.add('cb', tag=tag, args=args)
        return cb

    def cur_eio():
        live = [e for e in ss.conns if e not in ss.closed]
        return live[-1] if live else None

    def ids_seen(ns, current):
        """Ack ids the server saw in client EVENT packets on `ns`, on the
        current connection or on earlier ones."""
        cur = cur_eio()
        out = []
        for r in ss.rx:
            p = r['pkt']
            if p.base == sio.EVENT and p.nsp == ns and p.id is not None and \
                    (r['eio_sid'] == cur) == current:
                out.append(p.id)
        return out

    acked = {}
    nsent = 0
    for op in case['ops']:
        k = op[0]
        if k in ('emit_cb', 'emit', 'call'):
            ns, tag = op[1], op[2]
            if k == 'emit_cb':
                w.call(c.emit, 'q', tag, namespace=ns, callback=make_cb(tag),
                       _label=('emit_cb', tag))
            elif k == 'emit':
                w.call(c.emit, 'q', tag, namespace=ns, _label=('emit', tag))
            else:
                w.call(c.call, 'q', tag, namespace=ns, timeout=op[3],
                       _label=('call', tag))
        elif k == 'sack':
            ns, which = op[1], op[2]
            e = cur_eio()
            if e is None:
                continue
            if which == 'right':
                cand = [i for i in ids_seen(ns, True)
                        if i not in acked.get((e, ns), [])]
            elif which == 'again':
                cand = list(acked.get((e, ns), []))
            elif which == 'prev':
                cand = ids_seen(ns, False)
            else:
                cand = [977]
            if cand:
                i = cand[0]
                nsent += 1
                acked.setdefault((e, ns), []).append(i)
                ss.send_pkt(sio.ACK, ns, i, ['a%d' % nsent], eio_sid=e)
        elif k == 'sevent':
            e = cur_eio()
            if e is not None:
                ss.send_pkt(sio.EVENT, op[1], op[2], ['ev', op[3]],
                            eio_sid=e)
        elif k == 'sever':
            for cn in w.net.conns:
                if not cn.severed:
                    cn.sever(0.0, 0.0)
            rec.count('fault.sever')
            w.settle()
            w.advance(1.0)      # the client reconnects by itself
        elif k == 'sdisc':
            e = cur_eio()
            if e is not None:
                ss.send_pkt(sio.DISCONNECT, op[1], None, None, eio_sid=e)
        elif k == 'adv':
            w.advance(op[1])
        w.settle()
    w.advance(3.0)
    w.settle()
    return {'violations': v.items, 'digest': rec.digest.hex(),
            'nontrivial': True, 'stats': {},
            'sim_time': w.now() - 1_700_000_000.0, 'cfg': cfg['mode'],
            'choices': w.choices.dump(), 'log': rec.dump_log()}
