"""C19 - SimpleClient: events are received once each, in arrival order.

World: SimpleClient (thread world, random and PCT policies, pre-emption at
every event primitive and every input_buffer operation) and AsyncSimpleClient
(asyncio world, arrivals timed by seeded delays), connected through the real
client and engine.io stacks to a real server that emits a numbered stream."""
import socketio

from sim import sio
from sim.world import make_world
from .common import V, trepr, REAL_CLIENT, REAL_SERVER, STUBS

PROP = 'C19'
RUNS = {'quick': 4000, 'thorough': 150000}
BUDGET = {'quick': 100, 'thorough': 1500}
RULE = ('one run = one consumer script (receive with timeout None / small / '
        'large, emit, call, sleep) against one producer schedule (bursts, '
        'single events, events while the consumer is not waiting, losses of '
        'connection with and without successful reconnection, server '
        'DISCONNECT) under one seeded schedule; non-trivial = at least one '
        'event arrived while a receive() was in progress or a connection '
        'fault fired; distinct = distinct SHA-256 of the event log')
REAL = REAL_CLIENT + REAL_SERVER
ASSUMPTIONS = ['thread world: pre-emption at SimEvent / SimQueue / '
               'input_buffer operations (not at bytecodes)']
SHRINK_LISTS = ['consumer', 'producer']


def gen(rng, tier):
    mode = rng.choice(['async', 'thread', 'thread'])
    cfg = {'mode': mode, 'policy': rng.choice(['random', 'random', 'pct']),
           'pct_depth': rng.randrange(1, 4),
           'lat': rng.randrange(2),
           'fault': rng.choice([None, None, 'sever_reconnect', 'sever_final',
                                'sdisc', 'sever_reconnect',
                                'sever_slow_reconnect']),
           # the server's handler takes a while before it answers (so that a
           # call() can be waiting for its answer when the connection goes)
           'slow_ping': rng.random() < 0.4,
           # two more simple clients in the same process, afterwards: each
           # receives its own events only
           'pair': rng.random() < 0.2,
           # the consumer starts before connect() is called
           'early': rng.random() < 0.15,
           # the server greets every (re)connected client with an event that
           # travels right behind the CONNECT reply
           'welcome': rng.random() < 0.5,
           # connect(namespace=...): the simple client's one namespace
           'namespace': rng.choice(['/', '/', '/chat', '/chat/',
                                    '/a/b/'])}
    consumer = []
    for _ in range(rng.randrange(3, 10)):
        k = rng.random()
        if k < 0.65:
            consumer.append(['recv', rng.choice([None, None, 0.05, 0.35,
                                                 2.5])])
        elif k < 0.75:
            consumer.append(['emit'])
        elif k < 0.82:
            consumer.append(['call'])
        else:
            consumer.append(['sleep', rng.choice([0.01, 0.1, 0.3, 1.0])])
    producer = []
    t = 0.0
    for _ in range(rng.randrange(2, 8)):
        t += rng.choice([0.0, 0.0, 0.02, 0.1, 0.1, 0.4, 1.0])
        producer.append([round(t, 3), 'emit', rng.choice([1, 1, 2, 3, 5])])
    if cfg['fault']:
        tf = round(rng.choice([0.05, 0.2, 0.5, 1.2]), 3)
        producer.insert(rng.randrange(len(producer) + 1),
                        [tf, cfg['fault'], 0])
        if cfg['fault'] == 'sever_slow_reconnect' and rng.random() < 0.7:
            # a call() is waiting for its answer when the connection goes,
            # and times out while the client is still trying to reconnect
            cfg['slow_ping'] = True
            consumer[0:0] = [['sleep_to', round(max(0.0, tf - rng.choice(
                [0.001, 0.01, 0.03])), 4)], ['call']]
        elif rng.random() < 0.5:
            # aim emit()/call() at the instant the connection goes away
            if rng.random() < 0.5:
                aim = [['sleep_to', round(tf + rng.choice(
                    [0.0, 0.0, 0.001, 0.003, 0.2, 0.201]), 4)]]
            else:
                # the application thread becomes runnable the moment the
                # client notices the loss (a legal, if unlucky, moment to
                # call emit)
                aim = [['until_down', 5.0]]
            aim += [rng.choice([['emit'], ['emit'], ['call'],
                                ['recv', rng.choice([None, 0.35, 2.5])]])
                    for _ in range(rng.randrange(1, 4))]
            consumer[0:0] = aim
    if cfg['fault'] in ('sdisc', 'sever_final') and rng.random() < 0.3:
        # aimed: the last event and the final end of the connection arrive
        # in one burst while a receive() is blocked waiting
        tf = round(rng.choice([0.05, 0.2, 0.5]), 3)
        n = rng.choice([1, 1, 2, 3])
        producer = [[tf, 'emit', n], [tf, cfg['fault'], 0]]
        consumer = [['recv', rng.choice([None, None, 2.5])]
                    for _ in range(n + 1)] + consumer[:2]
        cfg['welcome'] = False
    if cfg['fault'] and rng.random() < 0.25:
        # aimed: a receive() / emit() that becomes runnable the moment the
        # client notices the loss, with the server greeting the reconnected
        # client right behind the CONNECT reply
        cfg['welcome'] = True
        consumer[0:0] = [['until_down', 5.0],
                         rng.choice([['recv', None], ['recv', 2.5],
                                     ['emit'], ['emit']])]
    if cfg['early']:
        consumer[0:0] = [rng.choice([['recv', None], ['recv', None],
                                     ['emit'], ['call']])]
    return {'cfg': cfg, 'consumer': consumer, 'producer': producer}


def sample(case):
    return case


class YieldList(list):
    """input_buffer whose operations are pre-emption points and are logged."""

    def __init__(self, kernel, rec):
        super().__init__()
        self._k = kernel
        self._rec = rec

    def append(self, item):
        if self._k is not None:
            self._k.yield_point('buf.append')
        self._rec.add('arrive', item=item)
        super().append(item)
        if self._k is not None:
            self._k.yield_point('buf.appended')

    def pop(self, i=-1):
        if self._k is not None:
            self._k.yield_point('buf.pop')
        return super().pop(i)

    def __bool__(self):
        if self._k is not None:
            self._k.yield_point('buf.bool')
        return len(self) > 0


def pair_phase(w, v, SC, ckw, NS, is_async):
    """Two further simple clients, A and B: events sent to A while B
    connects and receives, and the other way round."""
    made = []

    def factory(*a, **k):
        cl = w.add_client('p%d' % len(made), **k)
        made.append(cl)
        return cl
    log = {}

    def connect(name):
        c = SC(**ckw)
        c.client_class = factory
        h = w.call(c.connect, 'http://s', transports=['websocket'],
                   namespace=NS)
        w.settle()
        return c if h.exc is None and c.connected else None

    def send(c, val):
        w.api('s', 'emit', 'n', val, to=c.sid, namespace=NS)
        w.settle()

    def recv(name, c):
        if is_async:
            async def go():
                try:
                    return await c.receive(timeout=0.5)
                except Exception as e:   # noqa
                    return type(e).__name__
        else:
            def go():
                try:
                    return c.receive(timeout=0.5)
                except Exception as e:   # noqa
                    return type(e).__name__
        h = w.call(go, _label=('pair-recv', name))
        w.settle()
        w.advance(0.6)
        w.settle()
        log.setdefault(name, []).append(h.result if h.done else 'BLOCKED')
    a = connect('A')
    if a is None:
        return
    send(a, 'a1')
    b = connect('B')          # (must not disturb what A has buffered)
    if b is None:
        return
    send(b, 'b1')
    send(a, 'a2')
    recv('B', b)
    recv('A', a)
    recv('A', a)
    recv('B', b)
    w.rec.count('app.two_more_simple_clients')
    want = {'A': [['n', 'a1'], ['n', 'a2']], 'B': [['n', 'b1'],
                                                   'TimeoutError']}
    if log != want:
        v.add('cross_talk_between_clients', 'two simple clients in one '
              'process: A was sent a1, a2 and B was sent b1; receive() '
              'returned %s' % log)
    for c in (a, b):
        w.call(c.disconnect)
    w.settle()


def run(case):
    cfg = case['cfg']
    w = make_world(cfg['mode'], seed=case['seed'],
                   choices_replay=case.get('choices'),
                   lat=[(0.0,), (0.0, 0.001, 0.003)][cfg['lat']],
                   policy=cfg['policy'], pct_depth=cfg['pct_depth'],
                   pct_span=300)
    try:
        return _run(case, cfg, w)
    finally:
        w.close()


def _run(case, cfg, w):
    v = V(PROP)
    rec = w.rec
    is_async = w.mode == 'async'
    NS = cfg.get('namespace', '/')
    srv = w.add_server('s', async_handlers=True, ping_interval=5,
                       ping_timeout=3)
    got_by_server = []

    welcome_on = [False]

    def splan(label, args, ev):
        if label[3] == 'connect' and welcome_on[0] and cfg.get('welcome'):
            w.after(0.0, lambda: produce('emit', 1))
        if label[3] == 'ping':
            got_by_server.append(args[1:])
            ret = ('ret', ['pong', args[1] if len(args) > 1 else None])
            if cfg.get('slow_ping'):
                return [('pause', w.choices.pick('app', (0.0, 0.05, 0.3),
                                                 'slowping')), ret]
            return [ret]
        return [('ret', None)]
    for evn in ('connect', 'disconnect', 'ping'):
        srv.on(evn, namespace=NS,
               handler=w.make_handler(('s', 'func', NS, evn), splan,
                                      coroutine=is_async and evn == 'ping'
                                      and bool(cfg.get('slow_ping'))))
    fault = cfg['fault']
    attempts = 1 if fault == 'sever_final' else 0
    ckw = dict(reconnection=True, reconnection_delay=0.2,
               reconnection_delay_max=0.4, randomization_factor=0,
               reconnection_attempts=attempts)
    SC = socketio.AsyncSimpleClient if is_async else socketio.SimpleClient
    sc = SC(**ckw)
    made = []

    def factory(*a, **k):
        cl = w.add_client('c%d' % len(made), **k)
        made.append(cl)
        return cl
    sc.client_class = factory
    kernel = getattr(w, 'kernel', None)
    t0 = w.now()
    # ---- consumer ---------------------------------------------------------
    results = []
    cur_step = [0]

    def note(step, kind, val):
        ev = rec.add('consumer', step=step, what=kind, val=val)
        results.append({'step': step, 'kind': kind, 'val': val,
                        'seq': ev['seq'], 't': ev['t']})

    if is_async:
        import asyncio
        down_evt = asyncio.Event()

        async def consume():
            ecount = 0
            for i, st in enumerate(case['consumer']):
                cur_step[0] = i
                try:
                    if st[0] == 'recv':
                        rec.add('recv_start', step=i, timeout=st[1])
                        r = await sc.receive(timeout=st[1])
                        note(i, 'recv', r)
                    elif st[0] == 'emit':
                        ecount += 1
                        await sc.emit('ping', 'e%d' % ecount)
                        note(i, 'emit', 'e%d' % ecount)
                    elif st[0] == 'call':
                        ecount += 1
                        r = await sc.call('ping', 'e%d' % ecount, timeout=2)
                        note(i, 'call', r)
                    elif st[0] == 'sleep_to':
                        await asyncio.sleep(max(0.0, t0 + st[1] - w.now()))
                    elif st[0] == 'until_down':
                        # (no polling: a periodic timer would keep the
                        # simulated system from ever being quiescent)
                        if sc.connected_event.is_set() and sc.connected:
                            down_evt.clear()
                            try:
                                await asyncio.wait_for(down_evt.wait(),
                                                       st[1])
                            except asyncio.TimeoutError:
                                pass
                    else:
                        await asyncio.sleep(st[1])
                except Exception as e:   # noqa
                    note(i, 'exc:' + st[0], type(e).__name__)
    else:
        def consume():
            ecount = 0
            for i, st in enumerate(case['consumer']):
                cur_step[0] = i
                try:
                    if st[0] == 'recv':
                        rec.add('recv_start', step=i, timeout=st[1])
                        r = sc.receive(timeout=st[1])
                        note(i, 'recv', r)
                    elif st[0] == 'emit':
                        ecount += 1
                        sc.emit('ping', 'e%d' % ecount)
                        note(i, 'emit', 'e%d' % ecount)
                    elif st[0] == 'call':
                        ecount += 1
                        r = sc.call('ping', 'e%d' % ecount, timeout=2)
                        note(i, 'call', r)
                    elif st[0] == 'sleep_to':
                        kernel.sleep(max(0.0, t0 + st[1] - w.now()))
                    elif st[0] == 'until_down':
                        ce = sc.connected_event
                        kernel.block(lambda: not ce.is_set() or
                                     not sc.connected, st[1],
                                     label='until_down')
                    else:
                        kernel.sleep(st[1])
                except Exception as e:   # noqa
                    note(i, 'exc:' + st[0], type(e).__name__)
    hc = None
    if cfg.get('early'):
        # the application's consumer is started BEFORE connect() is called
        # on the same object (its first call waits for the connection)
        hc = w.call(consume, _label=('consumer',))
        w.settle(horizon=0.01)
        rec.count('app.consumer_started_before_connect')
    h = w.call(sc.connect, 'http://s', transports=['websocket'],
               namespace=NS)
    w.settle()
    if h.exc is not None or not sc.connected:
        # nothing stands in the way of this connection: the server is up and
        # accepts the namespace
        v.add('initial_connect_failed', 'connect(namespace=%r) to a server '
              'that accepts it: raised %r, connected=%s'
              % (NS, h.exc, sc.connected))
        return {'violations': v.items, 'digest': rec.digest.hex(),
                'nontrivial': True, 'stats': {},
                'sim_time': w.now() - 1_700_000_000.0,
                'cfg': '%s/connect' % cfg['mode'],
                'choices': w.choices.dump(), 'log': rec.dump_log()}
    buf = YieldList(kernel, rec)
    sc.input_buffer = buf
    # the instant the connection ends for good: __disconnect_final clears
    # `connected` and then sets the connected event
    _orig_set = sc.connected_event.set

    def _set():
        if not sc.connected:
            rec.add('final_disconnect')
            if is_async:
                down_evt.set()
        rec.add('ce_set')
        return _orig_set()
    sc.connected_event.set = _set
    _orig_clear = sc.connected_event.clear

    def _clear():
        rec.add('ce_clear')
        if is_async:
            down_evt.set()
        return _orig_clear()
    sc.connected_event.clear = _clear
    # the instant the client starts processing the final end of the
    # connection, and every time an emit()/call() is released from its wait
    # for a reconnection (the moment it looks at the connection state)
    _hs = made[0].handlers.get(NS, {}) if made else {}
    _orig_final = _hs.get('__disconnect_final')
    if _orig_final is not None:
        if is_async:
            async def _final(*a):
                rec.add('final_begin')
                return await _orig_final(*a)
        else:
            def _final(*a):
                rec.add('final_begin')
                return _orig_final(*a)
        _hs['__disconnect_final'] = _final
    _orig_wait = sc.connected_event.wait
    if is_async:
        async def _wait(*a, **k):
            rec.add('ce_wait_enter', step=cur_step[0])
            r = await _orig_wait(*a, **k)
            rec.add('ce_wait_return', step=cur_step[0])
            return r
    else:
        def _wait(*a, **k):
            rec.add('ce_wait_enter', step=cur_step[0])
            r = _orig_wait(*a, **k)
            rec.add('ce_wait_return', step=cur_step[0])
            # (another thread may run between the wait and what follows it)
            kernel.yield_point('ce.wait.returned')
            return r
    sc.connected_event.wait = _wait
    t0 = w.now()
    welcome_on[0] = True
    counter = [0]
    final_at = [None]      # virtual time at which the connection ended for good
    nontrivial = bool(fault)

    # ---- producer ---------------------------------------------------------
    def cur_sid():
        ns = srv.manager.rooms.get(NS, {})
        sids = [s for s in ns.get(None, {})]
        return sids[-1] if sids else None

    def produce(kind, n):
        if kind == 'emit':
            sid = cur_sid()
            if sid is None:
                return
            for _ in range(n):
                counter[0] += 1
                rec.add('produce', k=counter[0])
                w.api('s', 'emit', 'n', counter[0], to=sid, namespace=NS)
        elif kind == 'sever_reconnect':
            for cn in w.net.conns:
                if not cn.severed:
                    cn.sever(0.0, 0.0)
            rec.count('fault.sever_reconnect')
        elif kind == 'sever_slow_reconnect':
            # nothing answers for a while: several attempts fail first
            t_up = w.now() + 3.0
            w.net.refuse_hook = lambda name, n: w.now() < t_up
            for cn in w.net.conns:
                if not cn.severed:
                    cn.sever(0.0, 0.0)
            rec.count('fault.sever_slow_reconnect')
        elif kind == 'sever_final':
            w.net.refuse_hook = lambda name, n: True
            for cn in w.net.conns:
                if not cn.severed:
                    cn.sever(0.0, 0.0)
            rec.count('fault.sever_final')
        elif kind == 'sdisc':
            sid = cur_sid()
            if sid:
                w.api('s', 'disconnect', sid, namespace=NS)
            rec.count('fault.server_disconnect')

    if hc is None:
        hc = w.call(consume, _label=('consumer',))
    last_t = 0.0
    for t, kind, n in sorted(case['producer'], key=lambda x: x[0]):
        if t > last_t:
            w.advance(t - last_t)
            last_t = t
        produce(kind, n)
    w.advance(12.0)
    w.settle()
    if cfg.get('pair'):
        welcome_on[0] = False
        pair_phase(w, v, SC, ckw, NS, is_async)
    # ---- oracle -------------------------------------------------------------
    arrivals = [e for e in rec.events if e['kind'] == 'arrive']
    arr_items = [e['item'] for e in arrivals]
    returned = [r for r in results if r['kind'] == 'recv']
    ret_items = [r['val'] for r in returned]
    if ret_items != arr_items[:len(ret_items)]:
        v.add('receive_sequence', 'receive() returned %s; arrival order was '
              '%s' % (ret_items[:8], arr_items[:8]),
              'dup' if len(set(map(repr, ret_items))) < len(ret_items)
              else 'order_or_loss')
    for it in arr_items:
        if not (isinstance(it, list) and len(it) == 2 and it[0] == 'n'):
            v.add('event_shape', trepr(it))
    # "never ... held back": in virtual time handling takes no time, so a
    # receive() returns an event at the very instant the event is there and
    # the call has started - not later, when something else wakes it up
    if ret_items == arr_items[:len(ret_items)]:
        start_t = {e['step']: e['t'] for e in rec.events
                   if e['kind'] == 'recv_start'}
        # while the client is reconnecting a receive() with an empty buffer
        # waits for the connection first: [clear, next set) intervals
        down = []
        for e in rec.events:
            if e['kind'] == 'ce_clear':
                down.append([e['t'], None])
            elif e['kind'] == 'ce_set' and down and down[-1][1] is None:
                down[-1][1] = e['t']
        for j, r in enumerate(returned):
            t_avail = max(arrivals[j]['t'], start_t.get(r['step'], 0.0))
            for a, b in down:
                if a <= t_avail + 1e-9 and (b is None or t_avail < b):
                    t_avail = b if b is not None else r['t']
            if r['t'] - t_avail > 1e-6:
                v.add('event_held_back', 'step %d: event %s was available '
                      'to the pending receive() at t=%.6f but returned at '
                      't=%.6f' % (r['step'], trepr(r['val']), t_avail,
                                  r['t']))
                break
    # final end of the connection: the client's __disconnect_final has run
    ended = not sc.connected
    # TimeoutError only while no event is available
    for r in results:
        if r['kind'] == 'exc:recv' and r['val'] == 'TimeoutError':
            n_ret_before = len([x for x in returned if x['seq'] < r['seq']])
            arrived_before = [a for a in arrivals
                              if a['t'] < r['t'] - 1e-9]
            if len(arrived_before) > n_ret_before:
                v.add('timeout_while_event_available', 'step %d raised '
                      'TimeoutError at t=%.3f; %d events had arrived before '
                      '(last at t=%.3f), only %d had been returned'
                      % (r['step'], r['t'], len(arrived_before),
                         arrived_before[-1]['t'], n_ret_before))
        if r['kind'] == 'exc:recv' and r['val'] == 'DisconnectedError':
            n_ret_before = len([x for x in returned if x['seq'] < r['seq']])
            # "the events received before that": before the connection ended
            # for good (an event whose handler thread runs after the final
            # notification was received after it)
            finals = [e['seq'] for e in rec.events
                      if e['kind'] == 'final_disconnect']
            fseq = finals[0] if finals else r['seq']
            arrived_before = [a for a in arrivals
                              if a['seq'] < min(fseq, r['seq'])]
            if len(arrived_before) > n_ret_before:
                v.add('disconnected_error_before_events_returned',
                      'step %d: %d arrived, %d returned'
                      % (r['step'], len(arrived_before), n_ret_before))
            if not ended:
                v.add('disconnected_error_while_connected', 'step %d'
                      % r['step'])
        if r['kind'].startswith('exc:') and r['val'] not in (
                'TimeoutError', 'DisconnectedError'):
            v.add('unexpected_exception', '%s step %d: %s'
                  % (r['kind'], r['step'], r['val']), r['val'])
        if r['kind'] in ('exc:emit', 'exc:call') and \
                r['val'] == 'DisconnectedError' and not ended:
            v.add('emit_failed_while_connection_recoverable',
                  'step %d' % r['step'])
    # emits issued reached the server, on the client's namespace
    sent = [r['val'] for r in results if r['kind'] == 'emit']
    delivered = [a[0] for a in got_by_server if a]
    for x in sent:
        n = delivered.count(x)
        if n > 1:
            v.add('emit_delivered_twice', x)
        if n == 0 and not fault:
            v.add('emit_not_delivered', '%s returned normally on a healthy '
                  'connection but never reached the server' % x)
    # "raise DisconnectedError once the connection has ended for good": an
    # emit()/call() that was released from its wait after the client began
    # processing the final end of the connection must not return normally
    fb = [e['seq'] for e in rec.events if e['kind'] == 'final_begin']
    if fb:
        for r in results:
            if r['kind'] not in ('emit', 'call'):
                continue
            waits = [e['seq'] for e in rec.events
                     if e['kind'] == 'ce_wait_return'
                     and e['step'] == r['step'] and e['seq'] < r['seq']]
            if waits and waits[-1] > fb[0] and \
                    (r['kind'] == 'call' or
                     delivered.count(r['val']) == 0):
                v.add('emit_returned_after_final_disconnect', 'step %d %s: '
                      'released from its wait at seq %d, after the final '
                      'disconnect began (seq %d), and returned normally'
                      % (r['step'], r['kind'], waits[-1], fb[0]), r['kind'])
    acked = [r for r in results if r['kind'] == 'call']
    for r in acked:
        if not (isinstance(r['val'], list) and r['val'][:1] == ['pong']):
            v.add('call_result', trepr(r['val']))
    # liveness at quiescence
    if not hc.done:
        idx = cur_step[0]
        st = case['consumer'][idx] if idx < len(case['consumer']) else None
        blocked_on = st[0] if st else '?'
        n_ret = len(returned)
        if blocked_on == 'recv' and len(arr_items) > n_ret:
            v.add('lost_wakeup', 'receive() blocked at quiescence with %d '
                  'undelivered events in the buffer' % (len(arr_items) -
                                                        n_ret))
        elif blocked_on == 'recv' and ended:
            v.add('receive_blocked_after_final_disconnect',
                  'receive(timeout=%r) still blocked although the connection '
                  'has ended for good' % (st[1],))
        elif blocked_on in ('emit', 'call'):
            v.add('emit_blocked_at_quiescence', '%s blocked; connection '
                  'ended=%s' % (blocked_on, ended))
    elif hc.exc is not None:
        v.add('consumer_raised', repr(hc.exc))
    if w.mode == 'thread':
        from sim.world import exc_site
        for name, e in kernel.thread_errors:
            v.add('thread_raised', '%s: %r in %s' % (name, e, exc_site(e)),
                  '%s@%s' % (type(e).__name__, exc_site(e)))
    # non-trivial: an arrival while a receive was in progress
    starts = [e for e in rec.events if e['kind'] == 'recv_start']
    for s in starts:
        end = [r for r in results if r['step'] == s['step']]
        e_seq = end[0]['seq'] if end else 10 ** 12
        if any(s['seq'] < a['seq'] < e_seq for a in arrivals):
            nontrivial = True
    stats = {'faults': {k: n for k, n in rec.counters.items()
                        if k.startswith('fault.')},
             'arrivals': len(arrivals), 'returned': len(returned)}
    if kernel is not None:
        stats['contended_picks'] = kernel.contended
    return {'violations': v.items, 'digest': rec.digest.hex(),
            'nontrivial': nontrivial, 'stats': stats,
            'sim_time': w.now() - 1_700_000_000.0,
            'cfg': '%s/%s/%s' % (cfg['mode'], cfg['policy']
                                 if not is_async else '-', fault),
            'choices': w.choices.dump(), 'log': rec.dump_log()}
