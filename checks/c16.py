"""C16 - user sessions are private to one client connection and namespace.

World: one real server (both kinds), 2-4 wire peers, 1-3 namespaces.
Generated: histories over connect / save_session / get_session / session()
block with mutations (also through class-based namespace helpers) / namespace
DISCONNECT / server.disconnect / transport loss / re-CONNECT of the same
namespace on the same transport / reconnect on a new transport.
Oracle: model sessions[(sid, ns)]."""
import inspect

from sim import sio
from sim.world import make_world
from sim.util import typed_eq, gen_value
from .common import V, trepr, REAL_SERVER, STUBS
from .scene import Scene
import socketio

PROP = 'C16'
RUNS = {'quick': 6000, 'thorough': 200000}
BUDGET = {'quick': 100, 'thorough': 1500}
RULE = ('one run = one seeded history of 10-50 session and lifecycle ops for '
        '2-4 wire peers on 1-3 namespaces, each op run to quiescence; '
        'non-trivial = the history re-connects a namespace (same or new '
        'transport) after a session had been saved for it, or reads a session '
        'of a peer that has sessions on two namespaces; distinct = distinct '
        'SHA-256 of the event log')
REAL = REAL_SERVER
ASSUMPTIONS = ['E1', 'E2']
SHRINK_LISTS = ['ops']
NSS = ['/', '/a', '/b']


def gen(rng, tier):
    mode = rng.choice(['async', 'thread'])
    npeers = rng.randrange(2, 5)
    nss = NSS[:rng.randrange(1, 4)]
    cfg = {'mode': mode, 'nss': nss, 'via_namespace': rng.random() < 0.3}
    ops = []
    for p in range(npeers):
        ops.append(['open', p])
        for ns in nss:
            if rng.random() < 0.8:
                ops.append(['connect', p, ns])
    n = rng.randrange(10, 35) if tier == 'quick' else rng.randrange(10, 50)
    cnt = 0
    for _ in range(n):
        p = rng.randrange(npeers)
        ns = rng.choice(nss)
        k = rng.random()
        cnt += 1
        if k < 0.03:
            ops.append(['save', p, ns, {}])       # "logout": start afresh
        elif k < 0.22:
            ops.append(['save', p, ns, {'v': cnt, 'x': gen_value(rng, 1)}])
        elif k < 0.45:
            ops.append(['get', p, ns])
        elif k < 0.56:
            ops.append(['block', p, ns, 'k%d' % (cnt % 3), cnt])
        elif k < 0.62:
            # two session() blocks for the same client overlap in time
            ops.append(['overlap', p, ns, cnt])
        elif k < 0.70:
            ops.append(['disc', p, ns])
            if rng.random() < 0.8:
                ops.append(['connect', p, ns])
        elif k < 0.77:
            ops.append(['sdisc', p, ns])
            if rng.random() < 0.8:
                ops.append(['connect', p, ns])
        elif k < 0.84:
            ops.append(['sever', p])
            ops.append(['open', p])
            for n2 in nss:
                if rng.random() < 0.8:
                    ops.append(['connect', p, n2])
        elif k < 0.90:
            ops.append(['connect', p, ns])
        elif k < 0.93:
            # a further namespace is requested and REFUSED by the
            # application's connect handler: the client's sessions on its
            # other namespaces are none of that request's business
            ops.append(['refused', p, ns, rng.choice(['false', 'cre'])])
        else:
            ops.append(['mutate_get', p, ns, cnt])
        if rng.random() < 0.12:
            # the application is still busy with clients whose transport has
            # gone (a background handler finishing late): it writes to and
            # reads sessions under session ids that have ended
            ops.append([rng.choice(['late_save', 'late_block']),
                        rng.randrange(8), {'late': cnt}])
            ops.append(['late_get', rng.randrange(8)])
    return {'cfg': cfg, 'ops': ops}


def sample(case):
    return {'cfg': case['cfg'], 'ops': case['ops'][:16]}


def run(case):
    cfg = case['cfg']
    w = make_world(cfg['mode'], seed=case['seed'],
                   choices_replay=case.get('choices'))
    try:
        return _run(case, cfg, w)
    finally:
        w.close()


def _run(case, cfg, w):
    v = V(PROP)
    srv = w.add_server('s', namespaces=list(cfg['nss']))
    nsobj = {}
    if cfg['via_namespace']:
        base = socketio.AsyncNamespace if w.mode == 'async' \
            else socketio.Namespace
        for ns in cfg['nss']:
            nsobj[ns] = base(ns)
            srv.register_namespace(nsobj[ns])
    # the application's disconnect handlers look at the session of the
    # client that is leaving (its last chance to)
    disc_reads = []
    if cfg.get('disc_reads', True):
        for ns in cfg['nss']:
            if w.mode == 'async':
                async def on_disc(sid, *a, ns=ns):
                    w.rec.add('h_enter', label=('s', 'func', ns,
                                                'disconnect'),
                              args=(sid, 'has-environ' if srv.get_environ(
                                  sid, ns) is not None else 'no-environ'))
                    try:
                        disc_reads.append((sid, ns, dict(
                            await srv.get_session(sid, namespace=ns))))
                    except Exception as e:   # noqa
                        disc_reads.append((sid, ns, e))
            else:
                def on_disc(sid, *a, ns=ns):
                    w.rec.add('h_enter', label=('s', 'func', ns,
                                                'disconnect'),
                              args=(sid, 'has-environ' if srv.get_environ(
                                  sid, ns) is not None else 'no-environ'))
                    try:
                        disc_reads.append((sid, ns, dict(
                            srv.get_session(sid, namespace=ns))))
                    except Exception as e:   # noqa
                        disc_reads.append((sid, ns, e))
            srv.on('disconnect', on_disc, namespace=ns)
    refuse_next = {}
    for ns in cfg['nss']:
        def on_connect(sid, environ, *a, ns=ns):
            how = refuse_next.pop(ns, None)
            if how == 'false':
                return False
            if how == 'cre':
                raise socketio.exceptions.ConnectionRefusedError('no')
        srv.on('connect', on_connect, namespace=ns)
    sc = Scene(w)
    model = {}          # (sid, ns) -> dict (what was last saved)
    # shadow of the known defect: what an implementation that keys the
    # session by transport + namespace (and therefore hands it to the next
    # sid on the same transport) would hold
    shadow = {}         # (id(peer object), ns) -> dict
    first_sid = {}      # (id(peer object), ns) -> first sid seen there

    def tkey(sid, ns):
        p, ns2, pe = sc.owner[sid]
        return (id(pe), ns)

    def classify(sid, ns, got, fresh=False):
        """Why does `got` differ from the specification model?"""
        tk = tkey(sid, ns)
        if first_sid.get(tk) != sid and tk in shadow and \
                typed_eq(got, shadow[tk]):
            return 'KNOWN_survives_namespace_reconnect'
        for (s2, n2), val in model.items():
            if (s2, n2) != (sid, ns) and val and typed_eq(got, val):
                return 'another_namespace' if s2 == sid else 'another_client'
        return 'new_sid_not_empty' if fresh else 'other'

    saved_ns = set()    # (p, ns) that ever had a session saved
    gone = []           # (sid, ns) whose transport has gone
    late_vals = []      # (sid, ns, value) written after the sid had ended
    nontrivial = False

    def target(ns):
        return nsobj.get(ns, srv)

    def call_api(name, sid, ns, *args):
        t = target(ns)
        fn = getattr(t, name)
        if t is srv:
            return w.call(fn, sid, *args, namespace=ns, _label=(name,))
        return w.call(fn, sid, *args, _label=(name, 'ns-helper'))

    def read(sid, ns, where, fresh=False):
        h = call_api('get_session', sid, ns)
        w.settle()
        if h.exc is not None:
            v.add('get_session_raised', '%s: %r' % (where, h.exc),
                  type(h.exc).__name__)
            return None
        want = model.get((sid, ns), {})
        if not typed_eq(h.result, want):
            leak = classify(sid, ns, h.result, fresh)
            add_mismatch(leak, '%s: get_session(%s,%s) = %s, last saved for '
                         'it: %s' % (where, sid, ns, trepr(h.result),
                                     trepr(want)))
        return h.result

    def check_disc_reads(where, ended):
        """ended: [(sid, ns, what the model held when it ended)]."""
        for sid, ns, want in ended:
            got = [x[2] for x in disc_reads if x[0] == sid and x[1] == ns]
            if len(got) != 1:
                continue          # (how often it runs is property C04)
            if isinstance(got[0], Exception):
                v.add('get_session_raised', '%s: in the disconnect handler '
                      'of %s [%s]: %r' % (where, sid, ns, got[0]),
                      'in_disconnect_handler')
            elif not typed_eq(got[0], want):
                add_mismatch(classify(sid, ns, got[0]), '%s: the disconnect '
                             'handler of %s [%s] read %s, last saved: %s'
                             % (where, sid, ns, trepr(got[0]), trepr(want)))
        del disc_reads[:]

    def add_mismatch(leak, detail):
        if leak.startswith('KNOWN_'):
            v.add('session' + leak[5:], detail)
        else:
            v.add('session_mismatch', detail, leak)

    for opi, op in enumerate(case['ops']):
        k = op[0]
        where = 'op%d %s' % (opi, op)
        if k == 'open':
            if not sc.alive(op[1]):
                sc.open(op[1])
        elif k == 'connect':
            _, p, ns = op
            if not sc.alive(p) or sc.sid(p, ns):
                continue
            sid = sc.connect(p, ns)
            if sid:
                first_sid.setdefault(tkey(sid, ns), sid)
                if (p, ns) in saved_ns:
                    nontrivial = True
                # a newly connected sid starts with an empty session
                read(sid, ns, where + ' (first read of a new sid)',
                     fresh=True)
        elif k == 'refused':
            _, p, ns, how = op
            if not sc.alive(p) or sc.sid(p, ns):
                continue
            refuse_next[ns] = how
            got = sc.connect(p, ns)
            refuse_next.pop(ns, None)
            w.rec.count('fault.connect_refused')
            if got is not None:
                v.add('refused_connect_accepted', where)
                sc.forget(p, ns)
            for (pp, n2), sid2 in sc.live_sids():
                if pp == p:
                    read(sid2, n2, where + ' (after a refused request for '
                         '%s)' % ns)
        elif k == 'save':
            _, p, ns, val = op
            sid = sc.sid(p, ns)
            if not sid:
                continue
            h = call_api('save_session', sid, ns, dict(val))
            w.settle()
            if h.exc is not None:
                v.add('save_session_raised', '%s: %r' % (where, h.exc))
                continue
            model[(sid, ns)] = dict(val)
            shadow[tkey(sid, ns)] = dict(val)
            saved_ns.add((p, ns))
        elif k == 'get':
            _, p, ns = op
            sid = sc.sid(p, ns)
            if not sid:
                continue
            if sum(1 for (pp, n2) in saved_ns if pp == p) >= 2:
                nontrivial = True
            read(sid, ns, where)
        elif k == 'mutate_get':
            # modifying the dict returned by get_session() "is not guaranteed
            # to be preserved": afterwards either value is acceptable, so the
            # model adopts whatever the server now reports (for this sid/ns
            # only)
            _, p, ns, n = op
            sid = sc.sid(p, ns)
            if not sid:
                continue
            h = call_api('get_session', sid, ns)
            w.settle()
            if h.exc is None and isinstance(h.result, dict):
                want = model.get((sid, ns), {})
                if not typed_eq(h.result, want):
                    add_mismatch(classify(sid, ns, h.result),
                                 '%s: %s vs %s' % (where, trepr(h.result),
                                                   trepr(want)))
                h.result['m'] = n
                h2 = call_api('get_session', sid, ns)
                w.settle()
                if h2.exc is None:
                    # either outcome is allowed; adopt it (relative to the
                    # specification model: only the key 'm' may have changed)
                    nw = dict(want)
                    if h2.result.get('m') == n:
                        nw['m'] = n
                    model[(sid, ns)] = nw
                    shadow[tkey(sid, ns)] = dict(h2.result)
                    saved_ns.add((p, ns))
        elif k == 'block':
            _, p, ns, key, val = op
            sid = sc.sid(p, ns)
            if not sid:
                continue
            t = target(ns)

            if w.mode == 'async':
                async def blk():
                    cm = t.session(sid, namespace=ns) if t is srv \
                        else t.session(sid)
                    async with cm as sess:
                        seen = dict(sess)
                        sess[key] = val
                    return seen
            else:
                def blk():
                    cm = t.session(sid, namespace=ns) if t is srv \
                        else t.session(sid)
                    with cm as sess:
                        seen = dict(sess)
                        sess[key] = val
                    return seen
            h = w.call(blk, _label=('session',))
            w.settle()
            if h.exc is not None:
                v.add('session_block_raised', '%s: %r' % (where, h.exc))
                continue
            want = model.get((sid, ns), {})
            if not typed_eq(h.result, want):
                add_mismatch(classify(sid, ns, h.result),
                             '%s: session() block saw %s, last saved: %s'
                             % (where, trepr(h.result), trepr(want)))
            nw = dict(want)
            nw[key] = val
            model[(sid, ns)] = nw
            sh = dict(h.result)
            sh[key] = val
            shadow[tkey(sid, ns)] = sh
            saved_ns.add((p, ns))
            read(sid, ns, where + ' (read after block)')
        elif k == 'overlap':
            _, p, ns, n = op
            sid = sc.sid(p, ns)
            if not sid:
                continue
            t = target(ns)

            def cm():
                return t.session(sid, namespace=ns) if t is srv \
                    else t.session(sid)
            if w.mode == 'async':
                import asyncio

                async def outer():
                    async with cm() as sess:
                        sess['outer%d' % n] = 1
                        await asyncio.sleep(0.01)
                        sess['outer_late%d' % n] = 2

                async def inner():
                    await asyncio.sleep(0.005)
                    async with cm() as sess:
                        sess['inner%d' % n] = 3
            else:
                def outer():
                    with cm() as sess:
                        sess['outer%d' % n] = 1
                        w.kernel.sleep(0.01)
                        sess['outer_late%d' % n] = 2

                def inner():
                    w.kernel.sleep(0.005)
                    with cm() as sess:
                        sess['inner%d' % n] = 3
            h1 = w.call(outer, _label=('session-outer',))
            h2 = w.call(inner, _label=('session-inner',))
            w.settle()
            if h1.exc is not None or h2.exc is not None:
                v.add('session_block_raised', '%s: %r %r'
                      % (where, h1.exc, h2.exc))
                continue
            nw = dict(model.get((sid, ns), {}))
            nw.update({'outer%d' % n: 1, 'outer_late%d' % n: 2,
                       'inner%d' % n: 3})
            prev_shadow = dict(shadow.get(tkey(sid, ns), {}))
            prev_shadow.update({'outer%d' % n: 1, 'outer_late%d' % n: 2,
                                'inner%d' % n: 3})
            model[(sid, ns)] = nw
            shadow[tkey(sid, ns)] = prev_shadow
            saved_ns.add((p, ns))
            read(sid, ns, where + ' (read after overlapping blocks)')
        elif k == 'disc':
            _, p, ns = op
            if not sc.alive(p):
                continue
            sid = sc.forget(p, ns)
            sc.peers[p].send_pkt(sio.DISCONNECT, ns, None, None)
            w.settle()
            if sid:
                check_disc_reads(where, [(sid, ns, model.get((sid, ns), {}))])
                model.pop((sid, ns), None)
        elif k == 'sdisc':
            _, p, ns = op
            sid = sc.sid(p, ns)
            if not sid:
                continue
            sc.forget(p, ns)
            w.api('s', 'disconnect', sid, namespace=ns)
            w.settle()
            check_disc_reads(where, [(sid, ns, model.get((sid, ns), {}))])
            model.pop((sid, ns), None)
        elif k == 'sever':
            p = op[1]
            if not sc.alive(p):
                continue
            sc.peers[p].sever(0.0)
            w.settle()
            dropped = sc.drop_transport(p)
            check_disc_reads(where, [(sid, ns, model.get((sid, ns), {}))
                                     for ns, sid in dropped])
            for ns, sid in dropped:
                shadow.pop(tkey(sid, ns), None)
                model.pop((sid, ns), None)
                gone.append((sid, ns))
        elif k in ('late_save', 'late_block') and gone:
            sid, ns = gone[op[1] % len(gone)]
            val = dict(op[2], owner=sid)
            if k == 'late_save':
                h = call_api('save_session', sid, ns, dict(val))
            else:
                t = target(ns)
                if w.mode == 'async':
                    async def blk():
                        cm = t.session(sid, namespace=ns) if t is srv \
                            else t.session(sid)
                        async with cm as sess:
                            sess.update(val)
                else:
                    def blk():
                        cm = t.session(sid, namespace=ns) if t is srv \
                            else t.session(sid)
                        with cm as sess:
                            sess.update(val)
                h = w.call(blk, _label=('session-late',))
            w.settle()
            w.rec.count('fault.late_session_write')
            # (it may fail - the client is gone - or be accepted)
            late_vals.append((sid, ns, val))
        elif k == 'late_get' and gone:
            sid, ns = gone[op[1] % len(gone)]
            h = call_api('get_session', sid, ns)
            w.settle()
            if h.exc is None and h.result:
                other = [s2 for s2, n2, val in late_vals
                         if s2 != sid and isinstance(h.result, dict) and
                         h.result.get('owner') == s2]
                other += [s2 for (s2, n2), val in model.items()
                          if s2 != sid and val and typed_eq(h.result, val)]
                v.add('session_mismatch', '%s: get_session(%s,%s) of a '
                      'client that is gone returned %s%s'
                      % (where, sid, ns, trepr(h.result),
                         ', written for %s' % other[0] if other else ''),
                      'another_client' if other else 'ended_session_readable')
    for e in w.rec.errors:
        v.add('error_logged', '%s %s' % (e['msg'], e.get('exc')),
              (e.get('exc') or e['msg']).split(':')[0][:40])
    return {'violations': v.items, 'digest': w.rec.digest.hex(),
            'nontrivial': nontrivial, 'stats': {},
            'sim_time': w.now() - 1_700_000_000.0,
            'cfg': '%s/%dns/%s' % (cfg['mode'], len(cfg['nss']),
                                   'helpers' if cfg['via_namespace']
                                   else 'server'),
            'choices': w.choices.dump(), 'log': w.rec.dump_log()}
