"""C11 - no residual server state once a client is gone.

World: one real server (both kinds, single-host manager); wire peers arrive
in generations and live random lives (connects - some refused -, rooms,
events - some malformed -, a BINARY_EVENT whose attachments stop short, emits
with callbacks never answered) ended by any cause at any point; any
application handler invocation may raise.  Oracle: per ended transport nothing
of it is listed anywhere; when the last peer is gone the server's structural
snapshot equals a freshly built server's; the object graph reachable from the
server does not grow between n and 2n generations."""
import gc

from sim import sio
from sim.world import make_world
from sim.choices import derive
from .common import V, REAL_SERVER, STUBS
from .scene import Scene
import socketio

PROP = 'C11'
RUNS = {'quick': 4000, 'thorough': 150000}
BUDGET = {'quick': 100, 'thorough': 1500}
RULE = ('one run = 2-5 generations of 1-3 wire peers each living a seeded '
        'random life and ending by a seeded cause, with a seeded subset of '
        'handler invocations raising; non-trivial = at least one fault fired '
        '(handler raised, transport ended mid binary packet, refused '
        'connect, unanswered callback, ping timeout); distinct = distinct '
        'SHA-256 of the event log')
REAL = REAL_SERVER
ASSUMPTIONS = ['E1', 'E2', 'injected handler exceptions are RuntimeError; '
               'TypeError only in the batch marked type_error (the library '
               'retries disconnect handlers on TypeError)']
SHRINK_LISTS = ['lives']

NSS = ['/', '/a', '/b']
ROOMS = ['room0', 'room1', 'room2', 0, '', 'room1', 0.0, 'room0']
ENDS = ['cdisc_close', 'sever', 'sdisc_sever', 'eio_close', 'sever_halfopen',
        'close', 'sever', 'ping_timeout', 'sdisc_ping_expired',
        'emit_ping_expired', 'sdisc_race_sever']
STEPS = ['room', 'room', 'event', 'event', 'event_unhandled', 'garbage',
         'partial_binary', 'emit_cb', 'emit_cb', 'leave', 'reconnect_ns',
         'cdisc', 'ack_partial', 'full_binary', 'leave_all']


def gen(rng, tier):
    mode = rng.choice(['async', 'thread'])
    cfg = {'mode': mode,
           'always_connect': rng.random() < 0.3,
           'style': rng.choice(['func', 'func', 'class']),
           'coroutine': rng.random() < 0.6,
           'raise_p': rng.choice([0, 0, 1, 2, 4]),   # out of 8
           'exc': rng.choice(['RuntimeError', 'RuntimeError', 'RuntimeError',
                              'ValueError', 'TypeError']),
           'growth': rng.random() < 0.12,
           'resident': rng.random() < 0.5,
           'async_handlers': rng.random() < 0.5,
           # asyncio: the boundary socketio -> engine.io suspends for a
           # seeded time
           'send_pauses': rng.random() < 0.4}
    lives = []
    ngen = rng.randrange(2, 6)
    for g in range(ngen):
        for _ in range(rng.randrange(1, 4)):
            life = {'gen': g, 'connects': [], 'steps': [],
                    'end': rng.choice(ENDS)}
            for ns in rng.sample(NSS, rng.randrange(1, 4)):
                life['connects'].append(
                    [ns, rng.choice(['accept', 'accept', 'accept', 'false',
                                     'cre'])])
            for _ in range(rng.randrange(0, 8)):
                life['steps'].append([rng.choice(STEPS), rng.choice(NSS),
                                      rng.randrange(1000)])
            if rng.random() < 0.2:
                # "the host leaves, kick the guests": a second client on the
                # same namespaces, disconnected by this client's disconnect
                # handler (the two terminations are nested)
                life['guest'] = True
            if rng.random() < 0.3:
                life['late'] = rng.sample(['enter_new', 'enter_existing',
                                           'leave', 'emit_cb', 'disconnect'],
                                          rng.randrange(1, 3))
            lives.append(life)
    return {'cfg': cfg, 'lives': lives}


def sample(case):
    return {'cfg': case['cfg'], 'lives': case['lives'][:3]}


def snapshot(srv):
    m = srv.manager
    return {
        'rooms': {repr(ns): {repr(r): sorted(b.keys()) for r, b in rs.items()}
                  for ns, rs in m.rooms.items()},
        'eio_to_sid': dict(m.eio_to_sid),
        'callbacks': {k: sorted(repr(x) for x in d if isinstance(x, int))
                      for k, d in m.callbacks.items()},
        'pending_disconnect': {k: list(x) for k, x in
                               m.pending_disconnect.items()},
        'environ': sorted(srv.environ.keys()),
        'binary_packet': sorted(srv._binary_packet.keys()),
        'eio_sockets': sorted(srv.eio.sockets.keys()),
    }


def reachable(root, limit=200000):
    """Number of objects reachable from root (excluding modules, classes,
    functions and code, which belong to the program, not to its state)."""
    import types
    import logging
    import asyncio
    from sim.rec import Recorder
    from sim.world import World
    from sim.choices import Choices
    from sim.threads import SimKernel
    skip = (types.ModuleType, type, types.FunctionType, types.CodeType,
            types.BuiltinFunctionType, types.MethodType, types.FrameType,
            logging.Logger, logging.Handler, Recorder, World, Choices,
            SimKernel, asyncio.AbstractEventLoop)
    seen = set()
    stack = [root]
    n = 0
    while stack and n < limit:
        o = stack.pop()
        if id(o) in seen or isinstance(o, skip):
            continue
        mod = type(o).__module__ or ''
        if mod.startswith('sim.') or mod in ('threading', '_thread',
                                              'collections'):
            continue        # the simulator's own pipes, threads and queues
        seen.add(id(o))
        n += 1
        stack.extend(gc.get_referents(o))
    return n


def run(case):
    cfg = case['cfg']
    kw = {'ping_interval': 5, 'ping_timeout': 3}
    w = make_world(cfg['mode'], seed=case['seed'],
                   choices_replay=case.get('choices'),
                   send_pauses=(0.0, 0.001, 0.004)
                   if cfg.get('send_pauses') else None)
    try:
        return _run(case, cfg, w, kw)
    finally:
        w.close()


def _run(case, cfg, w, kw):
    v = V(PROP)
    behaviours = {}
    faults = {'handler_raised': 0, 'mid_binary_end': 0, 'refused': 0,
              'unanswered_callback': 0, 'ping_timeout': 0, 'garbage': 0,
              'half_open': 0}
    excs = {'RuntimeError': RuntimeError, 'ValueError': ValueError,
            'TypeError': TypeError}

    owner_of = {}
    inv_count = {}
    kick_map = {}       # (sid, ns) -> sid its disconnect handler kicks

    def plan(label, args, ev):
        event = label[3]
        ns = label[2]
        steps = []
        if event == 'connect':
            cid = args[1]['sim.conn'].cid
            beh = behaviours.get((cid, ns), 'accept')
            if beh == 'false':
                return [('ret', False)]
            if beh == 'cre':
                return [('raise', socketio.exceptions.ConnectionRefusedError(
                    'no'))]
        if cfg['raise_p'] and cfg.get('raise_by_content'):
            # schedule-independent fault placement (used by the C14
            # differential check): decided by who is concerned and how often
            # this handler ran for them, not by a position in a choice stream
            if event == 'connect':
                owner_of[args[0]] = (args[1]['sim.conn'].cid, ns)
            key = (owner_of.get(args[0]), event)
            n_inv = inv_count.get(key, 0)
            inv_count[key] = n_inv + 1
            hit = derive(case['seed'], 'raise', repr(key), n_inv) % 8 \
                < cfg['raise_p']
        else:
            hit = cfg['raise_p'] and w.choices.chance(
                'faults', cfg['raise_p'], 8, 'raise')
        if event == 'disconnect':
            tgt = kick_map.pop((args[0], ns), None)
            if tgt is not None:
                faults['nested_disconnect'] = faults.get(
                    'nested_disconnect', 0) + 1
                steps.append(('do', lambda: srv.disconnect(tgt,
                                                           namespace=ns)))
        if hit:
            faults['handler_raised'] += 1
            w.rec.count('fault.handler_raise.' + event)
            return steps + [('raise', excs[cfg['exc']]('injected'))]
        return steps + [('ret', None)]

    def build_server(name):
        srv = w.add_server(name, always_connect=cfg['always_connect'],
                           async_handlers=cfg['async_handlers'],
                           namespaces=list(NSS), **kw)
        coroutine = cfg['coroutine'] and w.mode == 'async'
        events = ['connect', 'disconnect', 'ev']
        for ns in NSS:
            if cfg['style'] == 'func':
                for evn in events:
                    srv.on(evn, w.make_handler((name, 'func', ns, evn), plan,
                                               coroutine), namespace=ns)
            else:
                base = socketio.AsyncNamespace if w.mode == 'async' \
                    else socketio.Namespace
                srv.register_namespace(w.make_namespace(
                    ns, events, plan, server=name, coroutine=coroutine,
                    base=base))
        return srv
    srv = build_server('s')
    fresh = build_server('fresh')
    empty = snapshot(fresh)
    sc = Scene(w)
    gens = sorted({l['gen'] for l in case['lives']})
    ended_sids = []
    pid = 0
    sizes = []

    def check_gone(eio_sid, sids, where):
        try:
            _check_gone(eio_sid, sids, where)
        except Exception as e:   # a public listing function raised
            v.add('listing_raised', '%s: %r' % (where, e),
                  type(e).__name__)

    def _check_gone(eio_sid, sids, where):
        m = srv.manager
        for ns, sid in sids:
            if srv.rooms(sid, ns):
                v.add('residue_rooms', '%s: %s [%s] still in %s'
                      % (where, sid, ns, srv.rooms(sid, ns)))
            for ns2 in list(m.get_namespaces()):
                if any(s == sid for s, _ in m.get_participants(ns2, None)):
                    v.add('residue_participant', '%s: %s listed in %s'
                          % (where, sid, ns2))
            if sid in m.callbacks:
                v.add('residue_callbacks', '%s: %s has %d outstanding '
                      'callbacks' % (where, sid, len(m.callbacks[sid]) - 1))
            for pns, lst in m.pending_disconnect.items():
                if sid in lst:
                    v.add('residue_pending_mark', '%s: %s [%s]'
                          % (where, sid, pns))
            if srv.get_environ(sid, ns) is not None:
                v.add('residue_environ', '%s: %s' % (where, sid))
        if eio_sid in srv.environ:
            v.add('residue_environ', '%s: transport %s' % (where, eio_sid))
        if eio_sid in srv._binary_packet:
            v.add('residue_partial_packet', '%s: transport %s'
                  % (where, eio_sid))
        if eio_sid in srv.eio.sockets:
            v.add('residue_eio_socket', '%s: transport %s' % (where, eio_sid))

    def live_life(life, p):
        pe = sc.open(p)
        eio_sid = pe.eio_sid
        cid = pe.conn.cid
        sids = []
        for ns, beh in life['connects']:
            behaviours[(cid, ns)] = beh
            if beh != 'accept':
                faults['refused'] += 1
            n0 = len(w.rec.events)
            sid = sc.connect(p, ns)
            if sid:
                sids.append((ns, sid))
            # a refused or crashed connect also allocated a sid: find it
            for e in w.rec.events[n0:]:
                if e['kind'] == 'h_enter' and e['label'][3] == 'connect':
                    s = e['args'][0]
                    if (ns, s) not in sids:
                        sids.append((ns, s))
        guest = None
        guest_sids = []
        if life.get('guest'):
            gname = 'guest%d' % p
            guest = sc.open(gname)
            for ns, sid in list(sids):
                if not sc.sid(p, ns):
                    continue
                behaviours[(guest.conn.cid, ns)] = 'accept'
                gs = sc.connect(gname, ns)
                if gs:
                    guest_sids.append((ns, gs))
                    kick_map[(sid, ns)] = gs
        mid_binary = False
        for step, ns, r in life['steps']:
            sid = sc.sid(p, ns)
            if not sc.alive(p):
                break
            if step == 'room' and sid:
                w.api('s', 'enter_room', sid, ROOMS[r % len(ROOMS)],
                      namespace=ns)
            elif step == 'leave' and sid:
                w.api('s', 'leave_room', sid, ROOMS[r % len(ROOMS)],
                      namespace=ns)
            elif step == 'leave_all' and sid:
                # the application's tidy-up "leave every room rooms() lists"
                # (which includes the client's personal room)
                for room in list(srv.rooms(sid, ns)):
                    w.api('s', 'leave_room', sid, room, namespace=ns)
                    w.settle()
            elif step == 'event':
                pe.send_pkt(sio.EVENT, ns, r if r % 2 else None,
                            ['ev', r, {'b': b'x' * (r % 3)}])
            elif step == 'event_unhandled':
                pe.send_pkt(sio.EVENT, ns, r, ['nobody', r])
            elif step == 'garbage':
                faults['garbage'] += 1
                pe.send_frames([['2[', '9', '51-', '2/a,["ev"', '4"x"',
                                 '3' + '9' * 120 + '[]', '',
                                 '2{"a":1}'][r % 8]])
            elif step == 'partial_binary':
                # header announcing 2 attachments, only one follows
                nsp = '' if ns == '/' else ns + ','
                pe.send_frames(['52-' + nsp + '["ev",{"_placeholder":true,'
                                '"num":0},{"_placeholder":true,"num":1}]',
                                b'first'])
                mid_binary = True
            elif step == 'ack_partial':
                nsp = '' if ns == '/' else ns + ','
                pe.send_frames(['61-' + nsp + '1[{"_placeholder":true,'
                                '"num":0}]'])
                mid_binary = True
            elif step == 'full_binary':
                pe.send_pkt(sio.EVENT, ns, None, ['ev', b'a', [b'b']])
                mid_binary = False
            elif step == 'emit_cb' and sid:
                faults['unanswered_callback'] += 1
                w.api('s', 'emit', 'q', r, to=sid, namespace=ns,
                      callback=lambda *a: None)
            elif step == 'cdisc' and sid:
                pe.send_pkt(sio.DISCONNECT, ns, None, None)
                sc.forget(p, ns)
            elif step == 'reconnect_ns' and not sid:
                behaviours[(cid, ns)] = 'accept'
                s2 = sc.connect(p, ns)
                if s2:
                    sids.append((ns, s2))
            w.settle()
        if mid_binary:
            faults['mid_binary_end'] += 1
            w.rec.count('fault.sever_in_binary')
        end = life['end']
        if end == 'cdisc_close':
            for (pp, ns), sid in sc.live_sids():
                if pp == p:
                    pe.send_pkt(sio.DISCONNECT, ns, None, None)
            pe.close()
        elif end == 'sever':
            pe.sever(0.0)
        elif end == 'sdisc_sever':
            for (pp, ns), sid in sc.live_sids():
                if pp == p:
                    w.api('s', 'disconnect', sid, namespace=ns)
            w.settle()
            pe.sever(0.0)
        elif end == 'sdisc_race_sever':
            # the application disconnects the client while its transport is
            # going away: the loss is processed while disconnect() is
            # suspended in a send (asyncio) or before it gets to run
            for (pp, ns), sid in sc.live_sids():
                if pp == p:
                    w.api('s', 'disconnect', sid, namespace=ns)
            w.advance(w.choices.pick('sched', (0.0, 0.0005, 0.002), 'rsv'))
            pe.sever(0.0)
        elif end == 'eio_close':
            # engine.io CLOSE, then the client closes the websocket
            pe.send_eio('1')
            pe.close()
        elif end == 'close':
            pe.close()
        elif end in ('sdisc_ping_expired', 'emit_ping_expired'):
            # the client is silently gone (half-open); the application kicks
            # it (or emits to it) after its ping has expired but before the
            # reader gave up: engine.io notices inside that very send and
            # tears the connection down re-entrantly
            pe.auto_pong = False       # silent from now on
            faults['half_open'] += 1
            pings0 = pe.pings
            w.settle()
            for _ in range(12):
                if pe.pings > pings0:
                    break
                w.advance(1.0)
            w.advance(3.5)
            w.rec.count('fault.clock_jump')
            mine = [(ns, sid) for (pp, ns), sid in sc.live_sids() if pp == p]
            if mine:
                ns0, sid0 = mine[0]
                if end == 'sdisc_ping_expired':
                    w.api('s', 'disconnect', sid0, namespace=ns0)
                else:
                    w.api('s', 'emit', 'x', 1, to=sid0, namespace=ns0)
                faults['ping_timeout'] += 1
            w.settle()
            pe.sever(0.0)
            w.advance(40.0)
        elif end in ('sever_halfopen', 'ping_timeout'):
            # the server is never told: only its ping timeout ends it
            pe.auto_pong = False
            pe.sever(None)
            faults['half_open'] += 1
            faults['ping_timeout'] += 1
            w.settle()
            w.advance(40.0)
        w.settle()
        sc.drop_transport(p)
        # the application may still be busy with this client when it goes
        # (a background handler finishing late): API calls naming the gone
        # session id may fail, but must not leave anything behind either
        if life.get('late'):
            for ns, sid in sids:
                for what in life['late']:
                    faults['late_api_call'] = faults.get('late_api_call',
                                                         0) + 1
                    if what == 'enter_new':
                        w.api('s', 'enter_room', sid, 'late-%s' % sid[:4],
                              namespace=ns)
                    elif what == 'enter_existing':
                        w.api('s', 'enter_room', sid, 'room0', namespace=ns)
                    elif what == 'leave':
                        w.api('s', 'leave_room', sid, 'room1', namespace=ns)
                    elif what == 'emit_cb':
                        w.api('s', 'emit', 'q', 1, to=sid, namespace=ns,
                              callback=lambda *a: None)
                    elif what == 'disconnect':
                        w.api('s', 'disconnect', sid, namespace=ns)
                    w.settle()
        check_gone(eio_sid, sids, 'life of peer %d (end %s)' % (p, end))
        ended_sids.extend(sids)
        if guest is not None:
            for ns, sid in sids:
                kick_map.pop((sid, ns), None)
            g_eio = guest.eio_sid
            guest.sever(0.0)
            w.settle()
            sc.drop_transport('guest%d' % p)
            check_gone(g_eio, guest_sids, 'guest of peer %d' % p)
            ended_sids.extend(guest_sids)

    resident = None
    if cfg.get('resident'):
        # another client that stays for the whole run, in room0 of every
        # namespace: the others come and go next to it
        resident = sc.open('resident')
        for ns in NSS:
            behaviours[(resident.conn.cid, ns)] = 'accept'
            rs = sc.connect('resident', ns)
            if rs:
                w.api('s', 'enter_room', rs, 'room0', namespace=ns)
        w.settle()
    ngens = len(gens)
    for gi, g in enumerate(gens):
        for life in [l for l in case['lives'] if l['gen'] == g]:
            live_life(life, pid)
            pid += 1
        if cfg['growth']:
            gc.collect()
            sizes.append(reachable(srv))
    if resident is not None:
        resident.sever(0.0)
        w.settle()
        sc.drop_transport('resident')
    w.settle()
    # the last client has gone: indistinguishable from a fresh server
    snap = snapshot(srv)
    for key in empty:
        if snap[key] != empty[key]:
            v.add('not_like_fresh_server', '%s = %s, fresh server has %s'
                  % (key, str(snap[key])[:300], empty[key]), key)
    if cfg['growth']:
        # every generation leaves the same (empty) state behind: the object
        # graph after generation k must not exceed the one after generation 1
        # by more than a constant
        if len(sizes) >= 2 and sizes[-1] > sizes[0] + 8:
            v.add('object_graph_grows', 'reachable objects after each '
                  'generation: %s' % sizes)
    nontrivial = any(faults.values())
    return {'violations': v.items, 'digest': w.rec.digest.hex(),
            'nontrivial': nontrivial, 'stats': {'faults': faults,
                                                'lives': len(case['lives'])},
            'sim_time': w.now() - 1_700_000_000.0,
            'cfg': '%s/%s/raise=%s/%s' % (cfg['mode'], cfg['style'],
                                          cfg['raise_p'], cfg['exc']),
            'choices': w.choices.dump(), 'log': w.rec.dump_log()}
