"""C18 - admin instrumentation: gated by credentials, invisible to the
application.

World: twin servers built from the same seed - one plain, one instrument()ed -
driven by the same script; app wire peers on application namespaces; on the
instrumented twin 0-2 admin wire peers.  Grid: auth as non-empty dict /
non-empty list of dicts / sync predicate / async predicate / False; mode in
{development, production}; read_only in {F, T}; Server and AsyncServer.  The
stats task and admin timers run in virtual time."""
import copy

from sim import sio
from sim.world import make_world
from sim.util import typed_eq
from sim.choices import derive
from .common import V, trepr, pkt_key, REAL_SERVER, STUBS
from .scene import Scene

PROP = 'C18'
RUNS = {'quick': 3000, 'thorough': 100000}
BUDGET = {'quick': 100, 'thorough': 1500}
RULE = ('one run = one configuration (auth style, mode, read_only, server '
        'kind) x a list of admin CONNECT attempts with generated auth '
        'payloads x (read-only) every admin command with real rooms and sids '
        'x one application history executed on a plain and on an '
        'instrumented twin; non-trivial = at least one admin attempt was '
        'refused and one accepted, or an admin was connected during the '
        'application history; distinct = distinct SHA-256 of the event log '
        'of the instrumented twin')
REAL = REAL_SERVER + ['socketio.admin.InstrumentedServer / '
                      'async_admin.InstrumentedAsyncServer incl. their '
                      'wrappers around _trigger_event, basic_enter_room, '
                      'basic_leave_room, emit and the engine.io socket']
ASSUMPTIONS = ['E1', 'E2', 'room names JSON-compatible (the admin protocol '
               'serialises them)']
SHRINK_LISTS = ['attempts', 'app']
NSS = ['/', '/chat']
CREDS = [{'username': 'admin', 'password': 'secret'},
         {'username': 'ops', 'password': 'pw2', 'n': 1}]


def gen_payload(rng):
    base = copy.deepcopy(rng.choice(CREDS))
    k = rng.randrange(14)
    if k == 0:
        return None
    if k == 1:
        return 'absent'
    if k == 2:
        return rng.choice([5, 'admin', ['admin', 'secret'], True, [], '',
                           0, [base]])
    if k in (3, 4, 5):
        return base
    if k == 6:
        base.pop(rng.choice(sorted(base)))
        return base
    if k == 7:
        base['extra'] = 1
        return base
    if k == 8:
        return dict(reversed(list(base.items())))
    if k == 9:
        key = rng.choice(sorted(base))
        v = base[key]
        base[key] = rng.choice([str(v) + ' ', v.upper() if isinstance(
            v, str) else str(v), True if v == 1 else None, [v], {'$ne': 1}])
        return base
    if k == 10:
        return {'username': {'$ne': None}, 'password': {'$ne': None}}
    if k == 11:
        return {'auth': base}
    if k == 12:
        return {}
    return {'username': 'admin', 'password': 'wrong'}


def gen(rng, tier):
    mode = rng.choice(['async', 'thread'])
    cfg = {'mode': mode,
           'auth': rng.choice(['dict', 'list', 'pred', 'apred', 'false']),
           'admin_mode': rng.choice(['development', 'production']),
           'read_only': rng.random() < 0.5,
           'nadmin': rng.randrange(0, 3),
           'coroutine': rng.random() < 0.6,
           'async_handlers': rng.random() < 0.4,
           # the server uses a message-queue client manager; a second, plain
           # host with one client shares the channel
           'pubsub': rng.random() < 0.25}
    attempts = [gen_payload(rng) for _ in range(rng.randrange(2, 7))]
    app = []
    npeers = rng.randrange(2, 4)
    # application clients on the long-polling transport; they may start a
    # websocket upgrade and abandon it
    cfg['polling'] = [p for p in range(npeers) if rng.random() < 0.3]

    def beh():
        # what the application's connect handler does
        return rng.choice(['accept'] * 6 + ['false', 'cre', 'kick', 'enter',
                                            'emit', 'pause_sever', 'boom'])
    for p in range(npeers):
        for ns in NSS:
            if rng.random() < 0.8:
                app.append(['connect', p, ns, beh()])
    tok = 0
    for _ in range(rng.randrange(6, 18)):
        k = rng.random()
        p = rng.randrange(npeers)
        ns = rng.choice(NSS)
        tok += 1
        if k < 0.2:
            app.append(['enter', p, ns, rng.choice(['r1', 'r2', 7])])
        elif k < 0.28:
            app.append(['leave', p, ns, rng.choice(['r1', 'r2', 7])])
        elif k < 0.31:
            app.append(['close', ns, rng.choice(['r1', 'r2'])])
        elif k < 0.33:
            # late clean-up naming a client that is gone, possibly in a
            # namespace nobody is connected to any more
            app.append(['leave_ghost', rng.choice(NSS + ['/void']),
                        rng.choice(['r1', 'r2'])])
        elif k < 0.50:
            app.append(['event', p, ns, 'T%d' % tok,
                        rng.choice([None, 1, 9]), rng.random() < 0.3])
        elif k < 0.55:
            # several events of one client in one polling payload; their
            # handlers use the server (emit to a room, leave / enter it)
            app.append(['burst', p, ns,
                        [[rng.choice(['shout', 'leave', 'join', 'ev']),
                          'B%d_%d' % (tok, j), rng.choice([None, 2])]
                         for j in range(rng.randrange(2, 5))]])
        elif k < 0.75:
            app.append(['emit', ns, rng.choice([None, 'r1', 'r2',
                                                ['sidof', p]]),
                        'E%d' % tok, rng.choice([None, None, rng.randrange(
                            npeers)])])
        elif k < 0.83:
            app.append(['emit_cb', p, ns, 'G%d' % tok])
        elif k < 0.9:
            app.append(['disc', p, ns])
        elif k < 0.95:
            app.append(['sdisc', p, ns])
        else:
            app.append(['connect', p, ns, beh()])
        if cfg['polling'] and rng.random() < 0.15:
            app.append(['upgrade_abort', rng.choice(cfg['polling']),
                        rng.choice(['none', 'probe'])])
    return {'cfg': cfg, 'attempts': attempts, 'app': app}


def sample(case):
    return {'cfg': case['cfg'], 'attempts': case['attempts'][:4],
            'app': case['app'][:8]}


def configured_auth(cfg):
    a = cfg['auth']
    if a == 'apred' and cfg['mode'] != 'async':
        a = 'pred'       # a coroutine predicate only makes sense on asyncio
    if a == 'dict':
        return CREDS[0]
    if a == 'list':
        return list(CREDS)
    if a == 'false':
        return False
    def check(payload):
        # the common idiom: a falsy non-bool (None, {}) for "no"
        if not isinstance(payload, dict):
            return None
        return payload and payload.get('username') == 'admin' and \
            payload.get('password') == 'secret'
    if a == 'pred':
        return check

    async def acheck(payload):
        return check(payload)
    return acheck


def should_accept(cfg, payload):
    a = cfg['auth']
    if a == 'false':
        return True
    p = None if payload == 'absent' else payload
    if a == 'dict':
        return p == CREDS[0]
    if a == 'list':
        return p in CREDS
    return isinstance(p, dict) and p.get('username') == 'admin' and \
        p.get('password') == 'secret'


def run(case):
    cfg = case['cfg']
    plain = run_twin(case, cfg, instrumented=False)
    if 'harness' in plain:
        return plain
    inst = run_twin(case, cfg, instrumented=True)
    if 'harness' in inst:
        return inst
    v = inst['v']
    # transparency: per application peer, the traces are equal
    # with admins connected the reports about every event are real sends
    # that suspend: work the application left running in the background (a
    # handler's fire-and-forget emit, concurrent handlers of one payload)
    # may be overtaken differently than on the plain server.  Such runs are
    # compared without regard to order; with no admin connected the
    # instrumented server must not even shift the schedule.
    unordered = cfg['nadmin'] > 0 and any(o[0] == 'burst'
                                          for o in case['app'])
    for p in sorted(set(plain['traces']) | set(inst['traces']), key=str):
        a = plain['traces'].get(p, [])
        b = inst['traces'].get(p, [])
        if unordered:
            a, b = sorted(a, key=repr), sorted(b, key=repr)
        if a != b:
            i = 0
            while i < min(len(a), len(b)) and a[i] == b[i]:
                i += 1
            v.add('application_trace_differs', 'peer %s entry %d: plain %s '
                  '| instrumented %s' % (p, i, a[i:i + 2], b[i:i + 2]),
                  'admins=%d' % cfg['nadmin'])
    for x in plain['v'].items:
        v.items.append(x)
    return {'violations': v.items, 'digest': inst['digest'],
            'nontrivial': inst['nontrivial'], 'stats': inst['stats'],
            'sim_time': inst['sim_time'] + plain['sim_time'],
            'cfg': '%s/%s/%s/ro=%s' % (cfg['mode'], cfg['auth'],
                                       cfg['admin_mode'], cfg['read_only']),
            'choices': inst['choices'], 'log': inst['log']}


def run_twin(case, cfg, instrumented):
    w = make_world(cfg['mode'], seed=case['seed'],
                   choices_replay=case.get('choices'), policy='fifo')
    try:
        return _run_twin(case, cfg, instrumented, w)
    finally:
        w.close()


def _run_twin(case, cfg, instrumented, w):
    v = V(PROP)
    rec = w.rec
    mkw = {}
    if cfg.get('pubsub'):
        from sim.bus import SimBus, SimPubSubManager, AsyncSimPubSubManager
        bus = SimBus(w, lags=(0.0,))
        Mgr = AsyncSimPubSubManager if w.mode == 'async' \
            else SimPubSubManager
        mkw['manager'] = Mgr(bus, 's')
    srv = w.add_server('s', namespaces=list(NSS),
                       async_handlers=bool(cfg.get('async_handlers')), **mkw)
    if cfg.get('pubsub'):
        other = w.add_server('h2', namespaces=list(NSS),
                             async_handlers=False, manager=Mgr(bus, 'h2'))
        for ns in NSS:
            other.on('connect', w.make_handler(('h2', 'func', ns, 'connect'),
                                               lambda *a: [('ret', None)],
                                               coroutine=False),
                     namespace=ns)

    pending_beh = {}
    sid_names = {}
    import socketio as _sio

    def plan(label, args, ev):
        if label[3] == 'ev':
            return [('ret', ['ok', args[1] if len(args) > 1 else None])]
        if label[3] in ('shout', 'leave', 'join'):
            ns, sid = label[2], args[0]
            tok = args[1] if len(args) > 1 else None
            if label[3] == 'shout':
                return [('do', lambda: srv.emit('msg', tok, room='r1',
                                                namespace=ns)),
                        ('ret', 'shouted')]
            if label[3] == 'leave':
                return [('do', lambda: srv.leave_room(sid, 'r1',
                                                      namespace=ns)),
                        ('ret', 'left')]
            return [('do', lambda: srv.enter_room(sid, 'r1', namespace=ns)),
                    ('ret', 'joined')]
        if label[3] == 'connect':
            ns = label[2]
            sid = args[0]
            if sid not in sid_names:
                sid_names[sid] = 'SID%d' % len(sid_names)
            b = pending_beh.pop(ns, 'accept')
            if b == 'false':
                return [('ret', False)]
            if b == 'cre':
                return [('raise', _sio.exceptions.ConnectionRefusedError(
                    'nope', {'c': 1}))]
            if b == 'kick':
                return [('do', lambda: srv.disconnect(sid, namespace=ns)),
                        ('ret', None)]
            if b == 'enter':
                return [('do', lambda: srv.enter_room(sid, 'r1',
                                                      namespace=ns)),
                        ('ret', None)]
            if b == 'emit':
                return [('do', lambda: srv.emit('hello', 'all',
                                                namespace=ns)),
                        ('ret', None)]
            if b == 'pause_sever':
                return [('pause', 0.01), ('ret', None)]
            if b == 'boom':
                # the application's connect handler fails (not a refusal)
                return [('raise', KeyError('boom-injected'))]
        return [('ret', None)]
    coroutine = bool(cfg.get('coroutine')) and w.mode == 'async'
    for ns in NSS:
        for evn in ('connect', 'disconnect', 'ev', 'shout', 'leave', 'join'):
            srv.on(evn, w.make_handler(('s', 'func', ns, evn), plan,
                                       coroutine=coroutine), namespace=ns)
    admin = None
    if instrumented:
        admin = srv.instrument(auth=configured_auth(cfg),
                               mode=cfg['admin_mode'],
                               read_only=cfg['read_only'],
                               server_id='srv', server_stats_interval=2)
    sc = Scene(w)
    stats = {'admin_accepted': 0, 'admin_refused': 0, 'admin_commands': 0}
    admins = []
    cb_log = []
    if instrumented:
        # (1) admin connect attempts
        for i, payload in enumerate(case['attempts']):
            name = 'adm%d' % i
            pe = sc.open(name)
            n0 = len(pe.rx)
            pe.send_pkt(sio.CONNECT, '/admin', None,
                        None if payload == 'absent' else payload)
            w.settle()
            ans = [r['pkt'] for r in pe.rx[n0:] if r['pkt'].nsp == '/admin'
                   and r['pkt'].type in (sio.CONNECT, sio.CONNECT_ERROR)]
            want = should_accept(cfg, payload)
            got = [sio.NAMES[a.type] for a in ans]
            if want and got != ['CONNECT']:
                v.add('admin_wrongly_refused', 'auth=%s payload %s -> %s'
                      % (cfg['auth'], trepr(payload), ans))
            if not want and got != ['CONNECT_ERROR']:
                v.add('admin_wrongly_accepted', 'auth=%s payload %s -> %s'
                      % (cfg['auth'], trepr(payload), ans), cfg['auth'])
            members = [s for s, _ in srv.manager.get_participants(
                '/admin', None)]
            if got == ['CONNECT']:
                stats['admin_accepted'] += 1
                admins.append(pe)
                sid = ans[0].data['sid']
            else:
                stats['admin_refused'] += 1
                # a refused attempt gains no membership
                for r in pe.rx[n0:]:
                    pass
            w.advance(0.3)
        refused_n = stats['admin_refused']
        n_members = len([s for s, _ in srv.manager.get_participants(
            '/admin', None)])
        if n_members != stats['admin_accepted']:
            v.add('admin_membership', '%d accepted, %d members of the admin '
                  'namespace' % (stats['admin_accepted'], n_members))
        # keep at most cfg['nadmin'] admins connected for the app history
        for pe in admins[cfg['nadmin']:]:
            pe.send_pkt(sio.DISCONNECT, '/admin', None, None)
        admins = admins[:cfg['nadmin']]
        w.settle()
    if cfg.get('pubsub'):
        # a client of the other host: it sees what goes through the queue
        sc.open('z', server='h2')
        for ns in NSS:
            zs = sc.connect('z', ns)
            if zs and zs not in sid_names:
                sid_names[zs] = 'SID%d' % len(sid_names)
        w.settle()
    # (3) the application history
    traces = {}
    outstanding = {}

    def norm(x):
        """Rename session ids by order of appearance."""
        if isinstance(x, str) and x in sid_names:
            return sid_names[x]
        if isinstance(x, list):
            return [norm(y) for y in x]
        if isinstance(x, tuple):
            return tuple(norm(y) for y in x)
        if isinstance(x, dict):
            return {k: norm(y) for k, y in x.items()}
        return x

    for op in case['app']:
        k = op[0]
        if k == 'connect':
            p, ns = op[1], op[2]
            b = op[3] if len(op) > 3 else 'accept'
            polling = p in cfg.get('polling', ())
            if p not in sc.peers or not sc.alive(p):
                sc.open(p, transport='polling' if polling else 'websocket')
            if sc.sid(p, ns):
                continue
            if polling and b == 'pause_sever':
                b = 'accept'
            pending_beh[ns] = b
            if b == 'pause_sever' and (w.mode == 'thread' or coroutine):
                # the transport is lost while the connect handler runs
                pe = sc.peers[p]
                pe.send_pkt(sio.CONNECT, ns, None, None)
                w.advance(0.005)
                pe.sever(0.0)
                w.settle()
                sc.drop_transport(p)
                pending_beh.pop(ns, None)
                continue
            sid = sc.connect(p, ns)
            pending_beh.pop(ns, None)
            if b == 'boom':
                # ... and that client goes away again
                sc.peers[p].sever(0.0)
                w.settle()
                sc.drop_transport(p)
                continue
            if sid and sid not in sid_names:
                sid_names[sid] = 'SID%d' % len(sid_names)
            if sid and b == 'kick':
                sc.forget(p, ns)     # it was disconnected by the handler
        elif k in ('enter', 'leave'):
            _, p, ns, room = op
            sid = sc.sid(p, ns)
            if sid:
                w.api('s', 'enter_room' if k == 'enter' else 'leave_room',
                      sid, room, namespace=ns)
        elif k == 'upgrade_abort':
            _, p, stage = op
            if p in sc.peers and sc.alive(p) and \
                    getattr(sc.peers[p], 'transport', '') == 'polling':
                if w.mode == 'async':
                    # (engine.io 4.14's asyncio socket never leaves its
                    # 'upgrading' state when the websocket goes before the
                    # probe - inside the trusted dependency, E5)
                    stage = 'probe'
                sc.peers[p].upgrade_abort(stage)
                w.settle()
                w.advance(0.1)
        elif k == 'close':
            w.api('s', 'close_room', op[2], namespace=op[1])
        elif k == 'leave_ghost':
            w.api('s', 'leave_room', 'nobody', op[2], namespace=op[1])
        elif k == 'event':
            _, p, ns, tok, id_, binary = op
            if p in sc.peers and sc.alive(p):
                sc.peers[p].send_pkt(sio.EVENT, ns, id_,
                                     ['ev', tok] + ([b'\x00'] if binary
                                                    else []))
        elif k == 'burst':
            _, p, ns, evs = op
            if p in sc.peers and sc.alive(p) and sc.sid(p, ns):
                if cfg.get('async_handlers') and cfg['nadmin'] > 0 and \
                        any(e[0] in ('leave', 'join') for e in evs):
                    # concurrent handlers racing each other while reports
                    # to connected admins are being sent: the reports are
                    # real sends that suspend, so which handler wins such a
                    # race may legitimately differ from the plain server -
                    # the events are sent one at a time instead
                    for evn, tok, id_ in evs:
                        sc.peers[p].send_pkt(sio.EVENT, ns, id_, [evn, tok])
                        w.settle()
                else:
                    sc.peers[p].post_pkts([(sio.EVENT, ns, id_, [evn, tok])
                                           for evn, tok, id_ in evs])
        elif k == 'emit':
            _, ns, to, tag = op[:4]
            skip = sc.sid(op[4], ns) if len(op) > 4 and op[4] is not None \
                else None
            if isinstance(to, list):
                to = sc.sid(to[1], ns) or 'nobody'
            kwq = {}
            if cfg.get('pubsub') and w.choices.chance('app', 1, 2, 'igq'):
                kwq['ignore_queue'] = True     # local clients only
            pay = tag
            pk = derive(case['seed'], 'payload', tag) % 12
            if pk < 6:
                pay = [0, '', [], {}, False, b''][pk]
            w.api('s', 'emit', 'news', pay, to=to, namespace=ns,
                  skip_sid=skip, **kwq)
        elif k == 'emit_cb':
            _, p, ns, tag = op
            sid = sc.sid(p, ns)
            if sid:
                w.api('s', 'emit', 'q', tag, to=sid, namespace=ns,
                      callback=lambda *a, tag=tag: cb_log.append((tag, a)))
                w.settle()
                for r in sc.peers[p].rx:
                    pk = r['pkt']
                    if pk.base == sio.EVENT and pk.data == ['q', tag]:
                        sc.peers[p].send_pkt(sio.ACK, ns, pk.id, [tag])
        elif k == 'disc':
            _, p, ns = op
            if p in sc.peers and sc.alive(p) and sc.sid(p, ns):
                sc.peers[p].send_pkt(sio.DISCONNECT, ns, None, None)
                sc.forget(p, ns)
        elif k == 'sdisc':
            _, p, ns = op
            sid = sc.sid(p, ns)
            if sid:
                w.api('s', 'disconnect', sid, namespace=ns)
                sc.forget(p, ns)
        w.settle()
    # (2) read-only: no admin request has any effect on the application
    if instrumented and cfg['read_only'] and admins:
        before = {(p, ns): sorted(map(repr, srv.rooms(sid, ns)))
                  for (p, ns), sid in sc.live_sids() if p != 'z'}
        marks = {p: len(sc.peers[p].rx) for p in sc.peers
                 if not str(p).startswith('adm') and sc.alive(p)}
        adm = admins[0]
        some = sc.live_sids()
        for ns in NSS:
            tgt = [s for (p, n2), s in some if n2 == ns]
            room_filter = tgt[0] if tgt else None
            for cmd in (['emit', ns, room_filter, 'pwned', 1],
                        ['emit', ns, None, 'pwned', 2],
                        ['join', ns, 'evil', room_filter],
                        ['join', ns, 'evil'],
                        ['leave', ns, 'r1', room_filter],
                        ['leave', ns, 'r1'],
                        ['_disconnect', ns, False, room_filter],
                        ['_disconnect', ns, True]):
                adm.send_pkt(sio.EVENT, '/admin', None, cmd)
                stats['admin_commands'] += 1
        w.settle()
        after = {(p, ns): sorted(map(repr, srv.rooms(sid, ns)))
                 for (p, ns), sid in sc.live_sids() if p != 'z'}
        if before != after:
            v.add('read_only_admin_changed_rooms', '%s -> %s'
                  % (before, after))
        for p, n0 in marks.items():
            new = [r['pkt'] for r in sc.peers[p].rx[n0:]]
            if new:
                v.add('read_only_admin_reached_application', 'peer %s '
                      'received %s' % (p, [x.key() for x in new[:2]]))
            if sc.peers[p].transport_closed:
                v.add('read_only_admin_disconnected_client', p)
        for (p, ns), sid in sc.live_sids():
            if p != 'z' and not srv.manager.is_connected(sid, ns):
                v.add('read_only_admin_disconnected_client', (p, ns))
    # traces per application peer
    for p, pe in sc.peers.items():
        if str(p).startswith('adm'):
            continue
        tr = []
        for r in pe.rx:
            pk = r['pkt']
            tr.append(('rx', sio.NAMES[pk.type] if isinstance(pk.type, int)
                       else pk.type, pk.nsp, pk.id if not (
                           pk.base == sio.EVENT and pk.data[:1] == ['q'])
                       else 'ID', trepr(norm(pk.data))))
        traces[p] = tr
    hs = []
    for e in rec.events:
        if e['kind'] == 'h_enter' and e['label'][2] != '/admin' and \
                e['label'][0] != 'h2':
            hs.append(('h', e['label'][2], e['label'][3],
                       trepr(norm(list(e['args'])))))
    traces['handlers'] = hs
    traces['callbacks'] = [trepr(norm(list(x))) for x in cb_log]
    traces['api'] = [(trepr(e['op']), e.get('exc'), trepr(norm(
        e.get('result')))) for e in rec.events if e['kind'] == 'op_end']
    for e in rec.errors:
        if 'boom-injected' in (e.get('exc') or ''):
            continue
        v.add('error_logged', '%s: %s %s in %s'
              % ('instrumented' if instrumented else 'plain', e['msg'],
                 e.get('exc'), e.get('site')),
              '%s@%s' % ((e.get('exc') or e['msg']).split(':')[0][:40],
                         e.get('site')))
    if w.mode == 'thread':
        from sim.world import exc_site
        for name, e in w.kernel.thread_errors:
            v.add('thread_raised', '%s: %r in %s' % (name, e, exc_site(e)),
                  '%s@%s' % (type(e).__name__, exc_site(e)))
    nontrivial = (stats['admin_accepted'] > 0 and stats['admin_refused'] > 0) \
        or bool(admins)
    return {'v': v, 'traces': traces, 'digest': rec.digest.hex(),
            'nontrivial': nontrivial, 'stats': {'admin': stats},
            'sim_time': w.now() - 1_700_000_000.0,
            'choices': w.choices.dump(), 'log': rec.dump_log()}
