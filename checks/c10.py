"""C10 - client reconnection: only after accidental loss, bounded back-off and
attempts.

World: a real client stack (both kinds) with the real engine.io client state
machine, against a real socketio server the simulator can sever from, take
down and bring back; SimNet decides the outcome of each connection attempt.
All waiting happens in virtual time."""
import asyncio
import socketio

from sim import sio
from sim.world import make_world
from .common import V, trepr, REAL_CLIENT, REAL_SERVER, STUBS

PROP = 'C10'
RUNS = {'quick': 4000, 'thorough': 150000}
BUDGET = {'quick': 100, 'thorough': 1500}
RULE = ('one run = one configuration from the grid (delay, delay_max, '
        'randomization factor, attempts, reconnection on/off) x one cause of '
        'the end x one fault pattern for up to 8 successive attempts '
        '(transport refusal, namespace refusal, accept) x optional '
        'shutdown() during a back-off x optional second loss right after a '
        'success; every run is non-trivial (a connection ends); distinct = '
        'distinct SHA-256 of the event log')
REAL = REAL_CLIENT + REAL_SERVER
ASSUMPTIONS = ['E2', 'thread world: fifo policy']
SHRINK_LISTS = ['pattern']
EPS = 0.06


def gen(rng, tier):
    mode = rng.choice(['async', 'thread'])
    cfg = {
        'mode': mode,
        'delay': rng.choice([0.1, 1, 3]),
        'delay_max': rng.choice([0.5, 5, 20]),
        'rf': rng.choice([0, 0.5, 1]),
        'attempts': rng.choice([0, 0, 1, 3, 6]),
        'reconnection': rng.random() < 0.85,
        'cause': rng.choice(['sever', 'sever', 'sever_halfopen',
                             'client_disconnect', 'server_disconnect',
                             'server_close', 'sever_delayed']),
        'nss': rng.choice([['/'], ['/', '/a'], ['/a']]),
        'auth': rng.choice([None, {'token': 'x'}, 'callable']),
        'headers': rng.choice([{}, {'X-K': 'v'}]),
        'shutdown_at': rng.choice([None, None, None, 1, 2, 3]),
        'shutdown_frac': rng.choice([0.1, 0.5, 0.9]),
        # shutdown() during the back-off wait, or while the attempt that
        # follows it is in flight
        'shutdown_phase': rng.choice(['backoff', 'backoff', 'attempt']),
        # what the client object went through before the connection that is
        # then lost: nothing / a disconnect() while idle / a full
        # connect-disconnect cycle
        'history': rng.choice([None, None, 'idle_disconnect', 'cycle']),
        'second_loss': rng.random() < 0.3,
        'lat': rng.choice([0, 1]),
        # a second client object in the same process, connected to the same
        # server (its own namespace), loses its transport while the first
        # one is busy reconnecting: it must reconnect all the same
        'bystander': rng.random() < 0.25,
        # the application's disconnect handler sends a last message
        'disc_handler_emits': rng.random() < 0.3,
        # while connected the application calls connect() again, with other
        # arguments, and is told 'Already connected'
        'second_connect': rng.random() < 0.25,
    }
    pattern = [rng.choice(['refuse', 'refuse', 'ns_refuse', 'accept'])
               for _ in range(rng.randrange(0, 8))] + ['accept']
    if rng.random() < 0.3 and len(pattern) > 1:
        # an attempt that gets as far as the server's CONNECT replies and
        # then loses its transport while the application's connect handler
        # is still running: a failed attempt like any other
        pattern[rng.randrange(len(pattern) - 1)] = 'lost_in_handler'
    return {'cfg': cfg, 'pattern': pattern}


def sample(case):
    return case


def backoff(cfg, k):
    """Nominal wait before the k-th attempt (k = 1, 2, ...)."""
    return min(cfg['delay'] * 2 ** (k - 1), cfg['delay_max'])


def run(case):
    cfg = case['cfg']
    w = make_world(cfg['mode'], seed=case['seed'],
                   choices_replay=case.get('choices'),
                   lat=[(0.0,), (0.0, 0.001, 0.003)][cfg['lat']],
                   policy='fifo')
    try:
        return _run(case, cfg, w)
    finally:
        w.close()


def _run(case, cfg, w):
    v = V(PROP)
    rec = w.rec
    ns_behaviour = {'mode': 'accept'}

    def splan(label, args, ev):
        if label[3] == 'connect':
            env = [a for a in args if isinstance(a, dict) and 'sim.conn' in a]
            ev['cid'] = env[0]['sim.conn'].cid if env else None
        if label[3] == 'connect' and ns_behaviour['mode'] == 'refuse':
            return [('raise', socketio.exceptions.ConnectionRefusedError(
                'no'))]
        return [('ret', None)]

    def build_server():
        srv = w.add_server('s', namespaces=list(cfg['nss']) + ['/by'],
                           ping_interval=5, ping_timeout=3)
        for ns in cfg['nss']:
            for evn in ('connect', 'disconnect'):
                srv.on(evn, w.make_handler(('s', 'func', ns, evn), splan),
                       namespace=ns)
        return srv
    srv = build_server()

    shut = {'at': None, 'n_enter': 0, 'armed': False}

    def maybe_shutdown_in_attempt(client):
        shut['n_enter'] += 1
        if shut['armed'] and shut['at'] is None and \
                shut['n_enter'] - 1 == cfg['shutdown_at']:
            def go():
                if shut['at'] is None:
                    shut['at'] = w.now() - 1_700_000_000.0
                    rec.add('shutdown_called')
                    rec.count('fault.shutdown_in_attempt')
                    w.call(client.shutdown)
            w.after(0.0, go)
            return w.choices.chance('app', 1, 2, 'shutdown_first')
        return False

    if w.mode == 'async':
        class RecClient(socketio.AsyncClient):
            async def connect(self, *a, **k):
                e = rec.add('connect_enter', url=a[0] if a else None,
                            headers=dict(k.get('headers') or {}),
                            namespaces=k.get('namespaces'),
                            transports=k.get('transports'))
                if maybe_shutdown_in_attempt(self):
                    # the application's shutdown() gets to run between the
                    # end of the back-off wait and the attempt proper
                    await asyncio.sleep(0)
                    await asyncio.sleep(0)
                try:
                    r = await super().connect(*a, **k)
                    rec.add('connect_exit', enter=e['seq'], ok=True)
                    return r
                except BaseException as ex:
                    rec.add('connect_exit', enter=e['seq'], ok=False,
                            exc=type(ex).__name__)
                    raise
    else:
        class RecClient(socketio.Client):
            def connect(self, *a, **k):
                e = rec.add('connect_enter', url=a[0] if a else None,
                            headers=dict(k.get('headers') or {}),
                            namespaces=k.get('namespaces'),
                            transports=k.get('transports'))
                if maybe_shutdown_in_attempt(self):
                    w.kernel.sleep(1e-6)
                try:
                    r = super().connect(*a, **k)
                    rec.add('connect_exit', enter=e['seq'], ok=True)
                    return r
                except BaseException as ex:
                    rec.add('connect_exit', enter=e['seq'], ok=False,
                            exc=type(ex).__name__)
                    raise
    c = w.add_client('c', client_cls=RecClient,
                     reconnection=cfg['reconnection'],
                     reconnection_attempts=cfg['attempts'],
                     reconnection_delay=cfg['delay'],
                     reconnection_delay_max=cfg['delay_max'],
                     randomization_factor=cfg['rf'])

    cur_outcome = [None]

    def lose_now():
        live = [cn for cn in w.net.conns if not cn.severed
                and 'by=1' not in str((cn.info or {}).get('url'))]
        if live:
            rec.count('fault.loss_in_connect_handler')
            live[-1].sever(0.0, 0.0)

    def cplan(label, args, ev):
        if label[3] == 'connect' and cur_outcome[0] == 'lost_in_handler':
            cur_outcome[0] = 'losing'
            w.after(0.02, lose_now)
            return [('pause', 0.05), ('ret', None)]
        if label[3] == 'connect' and cur_outcome[0] == 'losing':
            return [('pause', 0.05), ('ret', None)]
        if label[3] == 'disconnect' and cfg.get('disc_handler_emits'):
            return [('do', lambda: c.emit('bye', 'x', namespace=label[2])),
                    ('ret', None)]
        return [('ret', None)]
    slow_handlers = 'lost_in_handler' in case['pattern']
    for ns in cfg['nss']:
        for evn in ('connect', 'disconnect', 'connect_error'):
            c.on(evn, w.make_handler(('c', 'func', ns, evn), cplan,
                                     coroutine=w.mode == 'async' and (
                                         (slow_handlers and evn == 'connect')
                                         or (evn == 'disconnect' and bool(
                                             cfg.get('disc_handler_emits')))
                                     )),
                 namespace=ns)
    auth_calls = []
    if cfg['auth'] == 'callable':
        def auth():
            # a callable is how an application supplies credentials that
            # change over time: every evaluation returns a fresh value
            auth_calls.append(w.now())
            return {'token': 'call-%d' % len(auth_calls)}
        want_auth = 'CALLABLE'
    else:
        auth = cfg['auth']
        want_auth = cfg['auth']
    url = 'http://s?x=1'
    if cfg.get('history') == 'idle_disconnect':
        w.call(c.disconnect)
        w.settle()
    elif cfg.get('history') == 'cycle':
        h0 = w.call(c.connect, url, headers=dict(cfg['headers']), auth=auth,
                    transports=['websocket'], namespaces=list(cfg['nss']),
                    wait_timeout=2)
        w.settle()
        if h0.exc is None and c.connected:
            w.call(c.disconnect)
            w.settle()
            w.advance(1.0)
    if cfg.get('history'):
        # what follows is judged on its own: forget the events of the
        # history (the digest keeps them)
        del w.rec.events[:]
        del w.net.attempts[:]
        del w.rec.errors[:]
    h = w.call(c.connect, url, headers=dict(cfg['headers']), auth=auth,
               transports=['websocket'], namespaces=list(cfg['nss']),
               wait_timeout=2)
    w.settle()
    if h.exc is not None or not c.connected:
        return {'harness': 'initial connect failed: %r' % (h.exc,)}
    n_initial_attempts = len(w.net.attempts)
    first_info = w.net.attempts[0]['info']
    if cfg.get('second_connect'):
        # (through the base class: not one of the attempts the oracle counts)
        Base = socketio.AsyncClient if w.mode == 'async' else socketio.Client
        h2 = w.call(Base.connect, c, 'http://elsewhere?y=2',
                    headers={'X-Other': '1'}, auth={'token': 'other'},
                    transports=['polling'], namespaces=['/zz'],
                    wait_timeout=1, _label=('second-connect',))
        w.settle()
        rec.count('fault.refused_second_connect')
        if h2.exc is None or 'Already connected' not in str(h2.exc):
            v.add('second_connect_not_refused', repr(h2.exc))
        if len(w.net.attempts) != n_initial_attempts:
            v.add('second_connect_made_an_attempt', '%d transport attempts'
                  % (len(w.net.attempts) - n_initial_attempts))

    # ---- the bystander client
    by = None
    by_conn = None
    BY_URL = 'http://s?by=1'

    def is_by(x):
        info = x.get('info') if isinstance(x, dict) else \
            getattr(x, 'info', None)
        return 'by=1' in str((info or {}).get('url'))
    main_conn = [cn for cn in w.net.conns if not cn.severed][-1]
    if cfg.get('bystander'):
        srv.on('connect', w.make_handler(('s2', 'func', '/by', 'connect'),
                                         lambda *a: [('ret', None)]),
               namespace='/by')
        by = w.add_client('by', reconnection=True, reconnection_delay=0.3,
                          reconnection_delay_max=0.6, randomization_factor=0)
        for evn in ('connect', 'disconnect'):
            by.on(evn, w.make_handler(('by', 'func', '/by', evn),
                                      lambda *a: [('ret', None)],
                                      coroutine=False), namespace='/by')
        hb = w.call(by.connect, BY_URL, transports=['websocket'],
                    namespaces=['/by'], wait_timeout=2)
        w.settle()
        if hb.exc is not None or not by.connected:
            return {'harness': 'bystander failed to connect: %r' % (hb.exc,)}
        by_conn = [cn for cn in w.net.conns if not cn.severed][-1]
    # ---- outcome of the k-th reconnection attempt is the pattern's k-th
    # entry; the pattern index advances with every transport-level attempt
    state = {'k': 0}
    pattern = list(case['pattern'])

    def refuse_hook(name, n):
        info = w.net.attempts[-1].get('info') or {}
        if 'by=1' in str(info.get('url')):
            return False          # the bystander's attempts always succeed
        k = state['k']
        state['k'] += 1
        out = pattern[k] if k < len(pattern) else 'accept'
        rec.add('attempt', k=k + 1, outcome=out)
        cur_outcome[0] = out
        if out == 'ns_refuse':
            ns_behaviour['mode'] = 'refuse'
        else:
            ns_behaviour['mode'] = 'accept'
        return out == 'refuse'
    w.net.refuse_hook = refuse_hook

    # ---- end the connection
    cause = cfg['cause']
    accidental = cause in ('sever', 'sever_halfopen', 'sever_delayed')
    t_cause = w.now()
    conn = main_conn
    if by_conn is not None:
        # the bystander's own accidental loss, a moment later
        def by_loss():
            rec.count('fault.bystander_loss')
            by_conn.sever(0.0, 0.0)
        w.after(w.choices.pick('app', (0.0, 0.03, 0.03, 0.3), 'byloss'),
                by_loss)
    if cause == 'sever':
        conn.sever(0.0, 0.0)
    elif cause == 'sever_delayed':
        conn.sever(0.0, 0.7)
    elif cause == 'sever_halfopen':
        conn.sever(0.0, None)      # the client finds out by its own timeout
    elif cause == 'client_disconnect':
        w.call(c.disconnect)
    elif cause == 'server_disconnect':
        for ns in cfg['nss']:
            w.api('s', 'disconnect', c.namespaces[ns], namespace=ns)
    elif cause == 'server_close':
        eio_sid = list(srv.eio.sockets)[0]
        w.call(srv.eio.disconnect, eio_sid)
    rec.add('cause', cause=cause)
    expect_reconnect = accidental and cfg['reconnection']

    # ---- let virtual time pass; optionally shutdown() inside a back-off
    did_shutdown = None
    did_second = False
    horizon = 0.0
    total = 400.0
    step = 0.05
    shutdown_at = cfg['shutdown_at'] if expect_reconnect else None
    if shutdown_at is not None and cfg.get('shutdown_phase') == 'attempt':
        shut['armed'] = True      # fires from inside connect()
        shutdown_at = None
    t_end = w.now() + total
    last_exit_seen = 0
    while w.now() < t_end:
        w.advance(step)
        step = min(step * 1.5, 5.0)
        exits = [e for e in rec.events if e['kind'] == 'connect_exit']
        enters = [e for e in rec.events if e['kind'] == 'connect_enter']
        n_re = len(enters) - 1
        if shutdown_at is not None and did_shutdown is None:
            # we are in the back-off before attempt number `shutdown_at`
            # when shutdown_at-1 reconnection attempts have ended
            ended_re = len(exits) - 1
            loss_seen = any(e['kind'] == 'h_enter'
                            and e['label'][:2] == ('c', 'func')
                            and e['label'][3] == 'disconnect'
                            for e in rec.events)
            if loss_seen and ended_re == shutdown_at - 1 and \
                    n_re == ended_re and not c.connected:
                # advance into the wait by a fraction of its nominal length
                nominal = max(0.0, backoff(cfg, shutdown_at) - cfg['rf'])
                w.advance(nominal * cfg['shutdown_frac'] * 0.9)
                if len([e for e in rec.events
                        if e['kind'] == 'connect_enter']) - 1 == n_re \
                        and not c.connected:
                    did_shutdown = w.now() - 1_700_000_000.0
                    rec.add('shutdown_called')
                    w.call(c.shutdown)
                    rec.count('fault.shutdown_in_backoff')
        if cfg['second_loss'] and not did_second and c.connected and \
                len(exits) >= 2 and exits[-1]['ok'] and \
                did_shutdown is None and shut['at'] is None and \
                not shut['armed']:
            # a further loss right after the successful reconnection
            did_second = True
            live = [cn for cn in w.net.conns if not cn.severed
                    and not is_by(cn)]
            if live:
                rec.add('second_loss')
                pattern[state['k']:] = ['accept']
                live[-1].sever(0.0, 0.0)
                rec.count('fault.second_loss')
                t_end = w.now() + total
                step = 0.05
    w.settle()
    if shut['at'] is not None:
        did_shutdown = shut['at']

    # ------------------------------------------------------------ oracle
    enters = [e for e in rec.events if e['kind'] == 'connect_enter']
    exits = {e['enter']: e for e in rec.events if e['kind'] == 'connect_exit'}
    re_enters = enters[1:]
    losses = [e for e in rec.events if e['kind'] == 'h_enter'
              and e['label'][0] == 'c' and e['label'][3] == 'disconnect']
    if not expect_reconnect:
        n_att = len([a for a in w.net.attempts if not is_by(a)])
        if re_enters or n_att > n_initial_attempts:
            v.add('reconnected_although_not_accidental',
                  'cause %s, reconnection=%s: %d further connect() calls, %d '
                  'further transport attempts'
                  % (cause, cfg['reconnection'], len(re_enters),
                     n_att - n_initial_attempts), cause)
    else:
        # split into efforts (one per accidental loss)
        second = [e for e in rec.events if e['kind'] == 'second_loss']
        cut = second[0]['seq'] if second else None
        efforts = [[e for e in re_enters if cut is None or e['seq'] < cut]]
        loss_times = []
        acc_losses = [e for e in losses if e['args'] and e['args'][-1] in
                      ('transport error', 'transport close', 'ping timeout')]
        if cut is not None:
            efforts.append([e for e in re_enters if e['seq'] > cut])
        for ei, eff in enumerate(efforts):
            # the loss that started this effort: the last client-side
            # disconnect notification before its first attempt
            if ei == 0:
                cands = [e for e in losses if cut is None or e['seq'] < cut]
            else:
                cands = [e for e in losses if e['seq'] > cut]
            if not cands:
                v.add('loss_not_reported', 'effort %d: no disconnect handler '
                      'ran on the client' % ei)
                continue
            t_prev = cands[0]['t']
            pat = pattern if ei == 0 else None
            shut = did_shutdown is not None and ei == len(efforts) - 1
            for k, e in enumerate(eff, start=1):
                nominal = backoff(cfg, k)
                wk = e['t'] - t_prev
                lo = max(0.0, nominal - cfg['rf']) - EPS
                hi = nominal + cfg['rf'] + EPS
                if not (lo <= wk <= hi):
                    v.add('backoff_interval', 'effort %d attempt %d started '
                          'after %.3fs; nominal %.3f +- %.3f'
                          % (ei, k, wk, nominal, cfg['rf']),
                          'early' if wk < lo else 'late')
                if e['url'] != url or e['headers'] != cfg['headers'] or \
                        e['namespaces'] != list(cfg['nss']) or \
                        e['transports'] != ['websocket']:
                    v.add('attempt_parameters', 'attempt %d used %s'
                          % (k, {x: e[x] for x in ('url', 'headers',
                                                   'namespaces',
                                                   'transports')}))
                ex = exits.get(e['seq'])
                if ex is None:
                    v.add('attempt_never_ended', 'attempt %d' % k)
                    break
                t_prev = ex['t']
                # only one attempt at a time
                nxt = eff[k] if k < len(eff) else None
                if nxt is not None and nxt['seq'] < ex['seq']:
                    v.add('overlapping_attempts', 'attempt %d started before '
                          'attempt %d ended' % (k + 1, k))
                if ex['ok'] and nxt is not None:
                    v.add('attempt_after_success', 'attempt %d followed a '
                          'successful attempt %d' % (k + 1, k))
            n = len(eff)
            if cfg['attempts'] and n > cfg['attempts']:
                v.add('too_many_attempts', '%d attempts, limit %d'
                      % (n, cfg['attempts']))
            if did_shutdown is not None and ei == len(efforts) - 1:
                sseq = [e['seq'] for e in rec.events
                        if e['kind'] == 'shutdown_called']
                # attempts STARTED after shutdown() was called (the one that
                # may have been in flight at that moment is not one of them)
                late = [e for e in eff if sseq and e['seq'] > sseq[0]
                        and e['t'] > did_shutdown + 1e-5]
                if late:
                    v.add('attempt_after_shutdown', '%d attempts after '
                          'shutdown()' % len(late))
            else:
                # liveness: the pattern leads to an accept within the attempt
                # budget -> connected at the end; exhausted -> gave up
                if ei == 0:
                    outcomes = pattern[:]
                else:
                    outcomes = ['accept']
                try:
                    first_ok = outcomes.index('accept') + 1
                except ValueError:
                    first_ok = None
                limit = cfg['attempts'] or 10 ** 9
                is_last = ei == len(efforts) - 1
                if first_ok is not None and first_ok <= limit:
                    if n != first_ok:
                        v.add('attempt_count', 'effort %d: pattern %s accepts '
                              'at attempt %d, client made %d attempts'
                              % (ei, outcomes[:first_ok], first_ok, n),
                              'less' if n < first_ok else 'more')
                    elif is_last and not c.connected:
                        v.add('not_connected_after_accept',
                              'effort %d' % ei)
                else:
                    if n != min(limit, len(outcomes)):
                        v.add('attempt_count', 'effort %d: expected %d '
                              'attempts before giving up, saw %d'
                              % (ei, limit, n), 'giveup')
        # connect handlers run again after a successful reconnection
        ok_exits = [ex for ex in exits.values() if ex['ok']]
        cons = [e for e in rec.events if e['kind'] == 'h_enter'
                and e['label'][0] == 'c' and e['label'][3] == 'connect']
        if slow_handlers:
            # (the handlers also ran in the attempt that was lost)
            cons = [e for e in cons if any(
                ex['enter'] < e['seq'] < ex['seq'] for ex in ok_exits)]
        if len(cons) != len(ok_exits) * len(cfg['nss']):
            v.add('connect_handlers_after_reconnect', '%d successful '
                  'connects x %d namespaces, %d connect handler runs'
                  % (len(ok_exits), len(cfg['nss']), len(cons)))
    # every transport attempt carried the same url/headers; every CONNECT
    # the same auth
    if by is not None:
        # the bystander lost its transport by accident too: it is connected
        # again (its attempts are never refused), its handlers ran again
        byc = [e for e in rec.events if e['kind'] == 'h_enter'
               and e['label'][0] == 'by' and e['label'][3] == 'connect']
        if not by.connected or len(byc) != 2:
            v.add('bystander_not_reconnected', 'a second client in the same '
                  'process lost its transport while the first one was %s: '
                  'connected=%s, its connect handler ran %d times'
                  % ('reconnecting' if expect_reconnect else 'ending',
                     by.connected, len(byc)))
    for a in w.net.attempts[1:]:
        if is_by(a):
            continue
        info = a['info'] or {}
        if info.get('url') != first_info.get('url') or \
                info.get('header') != first_info.get('header'):
            v.add('transport_attempt_parameters', '%s vs first %s'
                  % (info, first_info))
    sconn = [e for e in rec.events if e['kind'] == 'h_enter'
             and e['label'][0] == 's' and e['label'][3] == 'connect']
    last_cid, last_k = None, 0
    for e in sconn:
        got = e['args'][2] if len(e['args']) > 2 else None
        if want_auth == 'CALLABLE':
            # per transport connection the callable is evaluated anew: all
            # namespaces of one connection carry one value, and a later
            # connection never repeats the value of an earlier one
            cid = e.get('cid', e['seq'])
            tok = got.get('token') if isinstance(got, dict) else None
            k = int(tok[5:]) if isinstance(tok, str) and \
                tok.startswith('call-') and tok[5:].isdigit() else None
            if k is None or k > len(auth_calls):
                v.add('auth_not_repeated', 'server saw auth %r from a '
                      'callable' % (got,))
            elif cid != last_cid and k <= last_k:
                v.add('auth_callable_not_reevaluated', 'a later connection '
                      'carried %r again (callable evaluated %d times in all)'
                      % (got, len(auth_calls)))
            elif cid == last_cid and k != last_k:
                v.add('auth_not_repeated', 'namespaces of one connection '
                      'carried different values (%r)' % (got,))
            if k is not None:
                last_cid, last_k = cid, k
            continue
        if (got or None) != (want_auth or None):
            v.add('auth_not_repeated', 'server saw auth %r, expected %r'
                  % (got, want_auth))
    if w.mode == 'thread':
        from sim.world import exc_site
        for name, e in w.kernel.thread_errors:
            v.add('thread_raised', '%s: %r in %s' % (name, e, exc_site(e)),
                  '%s@%s' % (type(e).__name__, exc_site(e)))
    for e in rec.errors:
        if e['who'].startswith('eioc') or e['who'].startswith('sioc'):
            if 'packet queue is empty' in e['msg']:
                continue
            v.add('client_error_logged', '%s %s in %s'
                  % (e['msg'], e.get('exc'), e.get('site')),
                  '%s@%s' % ((e.get('exc') or e['msg']).split(':')[0][:40],
                             e.get('site')))
    stats = {'faults': {k: n for k, n in rec.counters.items()
                        if k.startswith('fault.')},
             'causes': {cause: 1},
             'reconnect_attempts': len(re_enters)}
    return {'violations': v.items, 'digest': rec.digest.hex(),
            'nontrivial': True, 'stats': stats,
            'sim_time': w.now() - 1_700_000_000.0,
            'cfg': '%s/%s/rec=%s' % (cfg['mode'], cause, cfg['reconnection']),
            'choices': w.choices.dump(), 'log': rec.dump_log()}
