"""C15 - the pub/sub listener survives anything that arrives on the channel.

World: 1-2 real servers (both kinds) with local wire peers, on a SimBus into
which the simulator writes as a foreign host.  Channel sequences mix valid
messages with garbage of every kind; the application callback or the server
operation invoked by the listener raises at seeded messages; the listen
iterator itself raises at seeded messages.  After every injected item a valid
sentinel (an emit from a foreign host to a known local peer, unique payload).
Oracle: every sentinel is delivered to its peer exactly once (bounded
liveness), own echoes are not re-applied, callbacks addressed elsewhere do
not fire."""
import json
import pickle

from sim import sio
from sim.world import make_world
from sim.bus import SimBus, SimPubSubManager, AsyncSimPubSubManager
from .common import V, trepr, REAL_SERVER, STUBS
from .scene import Scene

PROP = 'C15'
RUNS = {'quick': 4000, 'thorough': 150000}
BUDGET = {'quick': 100, 'thorough': 1500}
RULE = ('one run = 8-30 injected channel items (garbage catalogue + random '
        'mutations, own-host echoes, misaddressed callbacks, valid messages '
        'whose processing raises, listen-iterator failures), each followed by '
        'a sentinel emit from a foreign host; non-trivial = at least one item '
        'made the listener log an error or restart, or a fault fired; '
        'distinct = distinct SHA-256 of the event log')
REAL = REAL_SERVER + ['socketio.PubSubManager / AsyncPubSubManager listener '
                      'loop, decoding fallbacks and handlers']
ASSUMPTIONS = ['E3 for the valid traffic; the foreign publisher may write '
               'anything']
SHRINK_LISTS = ['items']
KINDS = ['rand_bytes', 'trunc_pickle', 'flip_pickle', 'pickle_nondict',
         'json_nondict', 'json_dict', 'missing_field', 'wrong_type',
         'unknown_method', 'echo_own', 'callback_other_host',
         'callback_unknown_id', 'callback_malformed', 'handler_raises_cb',
         'chained_cb',
         'handler_raises_disconnect', 'listen_raises', 'bad_pickle_class',
         'remote_ops_unknown', 'valid_emit', 'dict_raw', 'str_raw',
         'json_bytes_emit', 'handler_emits_disconnect', 'json_after_nondict']


REDIS_JUNK = ['rand_bytes', 'trunc_pickle', 'flip_pickle', 'pickle_nondict',
              'json_nondict', 'json_dict', 'missing_field', 'wrong_type',
              'unknown_method', 'bad_pickle_class', 'remote_ops_unknown',
              'str_raw']


def gen(rng, tier):
    mode = rng.choice(['async', 'thread'])
    cfg = {'mode': mode, 'nhosts': rng.choice([1, 2]),
           'lag': rng.randrange(2),
           'backend': 'redis' if rng.random() < 0.2 else 'bus'}
    if cfg['backend'] == 'redis':
        items = []
        for _ in range(rng.randrange(3, 10)):
            k = rng.random()
            if k < 0.3:
                items.append(['outage', rng.choice([0.5, 3, 10, 40, 100,
                                                    300])])
            elif k < 0.45:
                items.append(['emit_during_outage', rng.choice([0.5, 5])])
            elif k < 0.50:
                items.append(['sentinel', 0])
            elif k < 0.55:
                # only the publishing connection fails once (the manager
                # reconnects and retries); the listener's is unaffected
                items.append(['publish_hiccup', rng.choice([1, 1, 2])])
            elif k < 0.85:
                # a junk message on the channel (same builders as the bus
                # batch), then a sentinel
                items.append(['junk', [rng.choice(REDIS_JUNK),
                                       rng.randrange(10 ** 6)]])
            else:
                items.append(['wait', rng.choice([1, 30, 90])])
        if rng.random() < 0.35:
            # aimed: the publishing connection fails once (the manager
            # replaces its connections), then values that are not messages
            # make the listener restart its iterator, then a sentinel
            at = rng.randrange(len(items) + 1)
            items[at:at] = [['publish_hiccup', 1]] + [
                ['junk', [rng.choice(['pickle_nondict', 'json_nondict']),
                          rng.randrange(10 ** 6)]] for _ in range(3)] + [
                ['sentinel', 0]]
        return {'cfg': cfg, 'items': items}
    items = []
    for _ in range(rng.randrange(8, 30)):
        items.append([rng.choice(KINDS), rng.randrange(10 ** 6)])
    return {'cfg': cfg, 'items': items}


def sample(case):
    return {'cfg': case['cfg'], 'items': case['items'][:12]}


def valid_emit(tag, sid, ns='/', host='foreign', **over):
    m = {'method': 'emit', 'event': 's', 'data': tag, 'namespace': ns,
         'room': sid, 'skip_sid': None, 'callback': None, 'host_id': host}
    m.update(over)
    return m


def make_item(kind, r, ctx):
    """-> (raw, note).  ctx: dict with sids, own host ids, outstanding
    callback info."""
    import random
    rng = random.Random(r)
    sid = ctx['sid']
    base = valid_emit('X%d' % r, sid)
    if kind == 'rand_bytes':
        return bytes(rng.randrange(256) for _ in range(rng.randrange(0, 40)))
    if kind == 'trunc_pickle':
        b = pickle.dumps(base)
        return b[:rng.randrange(1, len(b))]
    if kind == 'flip_pickle':
        good = pickle.dumps(base)
        for _ in range(12):
            b = bytearray(good)
            for _ in range(rng.randrange(1, 4)):
                i = rng.randrange(len(b))
                b[i] ^= 1 << rng.randrange(8)
            if _pickle_terminates(bytes(b), good):
                return bytes(b)
        return good[:len(good) // 2]
    if kind == 'pickle_nondict':
        return pickle.dumps(rng.choice([5, 0, 'method', ['method'],
                                        ['method', 'emit'], None, (1, 2),
                                        {'method'}, 3.5, b'method', True,
                                        [{'method': 'emit'}]]))
    if kind == 'json_nondict':
        return json.dumps(rng.choice([5, 'method', ['method'], None, [1, 2],
                                      True, 'x']))
    if kind == 'json_dict':
        d = dict(base)
        if rng.random() < 0.5:
            d.pop(rng.choice(sorted(d)))
        return json.dumps(d)
    if kind == 'missing_field':
        d = dict(rng.choice([
            base,
            {'method': 'disconnect', 'sid': sid, 'namespace': '/',
             'host_id': 'foreign'},
            {'method': 'enter_room', 'sid': sid, 'room': 'r',
             'namespace': '/', 'host_id': 'foreign'},
            {'method': 'close_room', 'room': 'r', 'namespace': '/',
             'host_id': 'foreign'},
            {'method': 'callback', 'host_id': ctx['host_ids'][0],
             'sid': sid, 'namespace': '/', 'id': 424242, 'args': []}]))
        for _ in range(rng.randrange(1, 3)):
            if len(d) > 1:
                key = rng.choice(sorted(k for k in d if k != 'method')
                                 or ['method'])
                if key == 'sid' and d.get('method') == 'disconnect':
                    continue
                d.pop(key, None)
        if d.get('method') in ('disconnect',) and 'sid' in d:
            d['sid'] = 'nobody'
        return pickle.dumps(d)
    if kind == 'wrong_type':
        d = dict(base)
        key = rng.choice(['method', 'event', 'namespace', 'room', 'skip_sid',
                          'callback', 'host_id', 'data'])
        d[key] = rng.choice([5, None, ['x'], {'a': 1}, {'s'}, b'x', 1.5,
                             ('a', 'b'), ('a', 'b', 'c'), True, ''])
        if key == 'room' and d[key] in (None, '', True) or \
                key == 'namespace' and d[key] == '':
            d[key] = ['x']
        if key in ('event', 'data', 'host_id', 'skip_sid') and \
                not isinstance(d[key], (dict, set)):
            # these would be a valid emit to the sentinel peer with a
            # different payload: keep them from reaching anybody
            d['room'] = 'nobody'
        return pickle.dumps(d)
    if kind == 'unknown_method':
        d = dict(base)
        d['method'] = rng.choice(['frobnicate', 'EMIT', '', 'emit ',
                                  '_handle_emit', 'initialize'])
        return pickle.dumps(d)
    if kind == 'echo_own':
        # an echo of a message the server published itself: must not be
        # applied again
        return pickle.dumps(valid_emit('ECHO%d' % r, sid,
                                       host=ctx['owner_host_id']))
    if kind == 'callback_other_host':
        return pickle.dumps({'method': 'callback', 'host_id': 'elsewhere',
                             'sid': ctx['cb_room'], 'namespace': '/',
                             'id': ctx['cb_id'], 'args': ['stolen']})
    if kind == 'callback_unknown_id':
        return pickle.dumps({'method': 'callback',
                             'host_id': ctx['owner_host_id'],
                             'sid': rng.choice([ctx['cb_room'], 'nobody']),
                             'namespace': '/',
                             'id': rng.choice([0, 999, -1, 'x', None]),
                             'args': ['x']})
    if kind == 'callback_malformed':
        return pickle.dumps({'method': 'callback',
                             'host_id': ctx['owner_host_id'],
                             'sid': ctx['cb_room'], 'namespace': '/',
                             'id': rng.choice([[1], {'a': 1}]),
                             'args': rng.choice([5, None, 'abc'])})
    if kind == 'bad_pickle_class':
        return b'cnonexistent_module_xyz\nFoo\n.'
    if kind == 'remote_ops_unknown':
        return pickle.dumps(rng.choice([
            {'method': 'enter_room', 'sid': 'nobody', 'room': 'r',
             'namespace': '/', 'host_id': 'foreign'},
            {'method': 'leave_room', 'sid': 'nobody', 'room': 'r',
             'namespace': '/zz', 'host_id': 'foreign'},
            {'method': 'close_room', 'room': 'nothing', 'namespace': '/zz',
             'host_id': 'foreign'},
            {'method': 'disconnect', 'sid': 'nobody', 'namespace': '/',
             'host_id': 'foreign'},
            {'method': 'disconnect', 'sid': None, 'namespace': None,
             'host_id': 'foreign'}]))
    if kind == 'dict_raw':
        d = dict(base)
        d['room'] = 'nobody'
        return d                       # some back ends hand over dicts
    if kind == 'str_raw':
        return rng.choice(['', 'hello', '{', '{"method": 5}', 'null'])
    return None


_DENY = {'LONG_BINPUT', 'LONG_BINGET', 'BYTEARRAY8', 'BINBYTES8',
         'BINUNICODE8', 'LONG4', 'GLOBAL', 'STACK_GLOBAL', 'INST', 'OBJ',
         'REDUCE', 'NEWOBJ', 'NEWOBJ_EX', 'BUILD', 'EXT1', 'EXT2', 'EXT4',
         'PERSID', 'BINPERSID', 'NEXT_BUFFER', 'READONLY_BUFFER', 'PUT',
         'GET', 'LONG', 'INT', 'FLOAT', 'STRING', 'UNICODE'}


def unpickler_safe(b):
    """Random or mutated bytes can make *pickle itself* allocate gigabytes
    (LONG_BINPUT 3571231782 resizes the memo, BYTEARRAY8 allocates its
    declared size, ...) or import arbitrary modules.  That hazard belongs to
    pickle and to whoever may write to the channel; it is not what C15 is
    about and it would take the test machine down.  Byte strings whose
    opcode stream - up to and including the opcode at which parsing stops -
    uses such opcodes are not generated (stated in DESIGN)."""
    import io
    import pickletools
    if not isinstance(b, (bytes, bytearray)):
        return True
    f = io.BytesIO(bytes(b))
    nxt = 0
    try:
        for op, arg, pos in pickletools.genops(f):
            if op.name in _DENY:
                return False
            if op.name == 'FRAME' and arg > len(b):
                return False
            nxt = f.tell()
            if op.name == 'STOP':
                break
        return True
    except Exception:
        if nxt >= len(b):
            return True
        op = pickletools.code2op.get(chr(b[nxt]))
        return op is None or op.name not in _DENY | {'FRAME'}


def _pickle_terminates(b, good):
    return unpickler_safe(b)


def run(case):
    cfg = case['cfg']
    w = make_world(cfg['mode'], seed=case['seed'],
                   choices_replay=case.get('choices'), policy='fifo')
    try:
        return _run(case, cfg, w)
    finally:
        w.close()


async def _ainit(m):
    m.initialize()


def _run_redis(case, cfg, w):
    """Extension: the bundled Redis back ends over a fake redis client whose
    connection fails according to the fault sequence; their retry loops and
    back-off sleeps run in virtual time."""
    import socketio
    from sim.fakeredis import (FakeBroker, FakeRedisModule,
                               FakeAioRedisModule, RedisError)
    v = V(PROP)
    rec = w.rec
    is_async = w.mode == 'async'
    broker = FakeBroker(w)
    if is_async:
        w.patches.set('socketio.async_redis_manager', 'aioredis',
                      FakeAioRedisModule(broker))
        w.patches.set('socketio.async_redis_manager', 'RedisError',
                      RedisError)
        mgr = socketio.AsyncRedisManager('redis://sim')
    else:
        w.patches.set('socketio.redis_manager', 'redis',
                      FakeRedisModule(broker, w.kernel))
        mgr = socketio.RedisManager('redis://sim')
    srv = w.add_server('h0', manager=mgr, namespaces=['/'])
    sc = Scene(w)
    sc.open('sent', server='h0')     # first connection initialises the manager
    sid = sc.connect('sent', '/')
    w.settle()
    sentinels = []
    n = 0
    last_outage_end = None
    nontrivial = False

    def send_sentinel(where):
        nonlocal n
        n += 1
        tag = 'S%d' % n
        sentinels.append(tag)
        broker.publish('socketio', pickle.dumps(valid_emit(tag, sid)))
        w.settle()
        got = [r for r in sc.peers['sent'].rx
               if r['pkt'].base == sio.EVENT and r['pkt'].data == ['s', tag]]
        if len(got) != 1:
            v.add('sentinel_delivery', '%s: sentinel %s delivered %d times '
                  '(%d live subscriptions)' % (where, tag, len(got),
                                               len(broker.subs)),
                  'redis:got%d' % min(len(got), 2))

    send_sentinel('before any fault')
    for i, (kind, arg) in enumerate(case['items']):
        where = 'item %d %s' % (i, [kind, arg])
        if kind == 'outage':
            nontrivial = True
            broker.outage(True)
            w.advance(arg)
            broker.outage(False)
            # once the faults stop the listener is back within its current
            # back-off (capped at 60 s)
            w.advance(61.0)
            send_sentinel(where + ' (61 s after the outage ended)')
        elif kind == 'emit_during_outage':
            nontrivial = True
            broker.outage(True)
            w.advance(arg)
            tag = 'L%d' % i
            h = w.api('h0', 'emit', 's', tag, to=sid)
            w.settle()
            if h.exc is not None:
                v.add('emit_raised_during_outage', '%s: %r' % (where, h.exc))
            got = [r for r in sc.peers['sent'].rx
                   if r['pkt'].data == ['s', tag]]
            if len(got) != 1:
                v.add('local_emit_during_outage', '%s: local client '
                      'received %d copies' % (where, len(got)))
            broker.outage(False)
            w.advance(61.0)
            send_sentinel(where + ' (after recovery)')
        elif kind == 'sentinel':
            send_sentinel(where)
        elif kind == 'publish_hiccup':
            nontrivial = True
            broker.publish_failures = arg
            tag = 'H%d' % i
            h = w.api('h0', 'emit', 's', tag, to=sid)
            w.settle()
            broker.publish_failures = 0
            if h.exc is not None:
                v.add('emit_raised_on_publish_error', '%s: %r'
                      % (where, h.exc))
            got = [r for r in sc.peers['sent'].rx
                   if r['pkt'].data == ['s', tag]]
            if len(got) != 1:
                v.add('local_emit_on_publish_error', '%s: local client '
                      'received %d copies' % (where, len(got)))
            send_sentinel(where + ' (after the publish error)')
        elif kind == 'junk':
            nontrivial = True
            raw = make_item(arg[0], arg[1], {
                'sid': sid, 'host_ids': [mgr.host_id],
                'owner_host_id': mgr.host_id, 'cb_room': sid,
                'cb_id': 424242})
            if isinstance(raw, str):
                raw = raw.encode('utf-8')
            if isinstance(raw, bytes) and unpickler_safe(raw):
                rec.count('fault.junk_message')
                broker.publish('socketio', raw)
                w.settle()
                # the listener may have restarted its subscription (a
                # message arriving in that gap is lost with a real broker
                # too); afterwards it must be listening again
                w.advance(2.0)
                send_sentinel(where + ' (after the junk message)')
        elif kind == 'wait':
            w.advance(arg)
    for o in w.ops:
        if o.done and o.exc is not None:
            v.add('api_raised', '%s: %r' % (o.label, o.exc))
    if w.mode == 'thread':
        from sim.world import exc_site
        for name, e in w.kernel.thread_errors:
            v.add('thread_raised', '%s: %r in %s' % (name, e, exc_site(e)),
                  '%s@%s' % (type(e).__name__, exc_site(e)))
    stats = {'faults': {k: n2 for k, n2 in rec.counters.items()
                        if k.startswith('fault.')},
             'sentinels': len(sentinels)}
    return {'violations': v.items, 'digest': rec.digest.hex(),
            'nontrivial': nontrivial, 'stats': stats,
            'sim_time': w.now() - 1_700_000_000.0,
            'cfg': '%s/redis' % cfg['mode'],
            'choices': w.choices.dump(), 'log': rec.dump_log()}


def _run(case, cfg, w):
    if cfg.get('backend') == 'redis':
        return _run_redis(case, cfg, w)
    v = V(PROP)
    rec = w.rec
    is_async = w.mode == 'async'
    bus = SimBus(w, lags=[(0.0,), (0.0, 0.01, 0.1)][cfg['lag']])
    Mgr = AsyncSimPubSubManager if is_async else SimPubSubManager
    hosts = []
    raise_next = {'disconnect': False, 'emit': False}

    def plan(label, args, ev):
        if label[3] == 'disconnect' and raise_next['disconnect']:
            raise_next['disconnect'] = False
            rec.count('fault.handler_raise.disconnect')
            return [('raise', RuntimeError('injected'))]
        if label[3] == 'disconnect' and raise_next['emit']:
            # the disconnect handler, running inside the listener, uses the
            # manager again: the usual "user left" broadcast (which goes to
            # the very channel the listener reads)
            raise_next['emit'] = False
            rec.count('app.emit_from_listener')
            me = w.servers[label[0]]
            return [('do', lambda: me.emit('left', args[0])), ('ret', None)]
        return [('ret', None)]
    for h in range(cfg['nhosts']):
        name = 'h%d' % h
        m = Mgr(bus, name)
        srv = w.add_server(name, manager=m, namespaces=['/'],
                           async_handlers=True)
        for evn in ('connect', 'disconnect'):
            srv.on(evn, w.make_handler((name, 'func', '/', evn), plan,
                                       coroutine=is_async and
                                       evn == 'disconnect'))
        srv.manager_initialized = True
        if is_async:
            w.call(_ainit, m)
        else:
            m.initialize()
        hosts.append(srv)
    w.settle()
    sc = Scene(w)
    # the sentinel peer lives on h0; a victim peer (disconnected by a valid
    # remote request whose handler raises) is re-created as needed
    sc.open('sent', server='h0')
    sent_sid = sc.connect('sent', '/')
    cb_log = []
    # an outstanding local callback on h0 (target of misaddressed callbacks)
    w.api('h0', 'emit', 'q', 'pending', to=sent_sid,
          callback=lambda *a: cb_log.append(('pending', a)))
    w.settle()
    ctx = {'sid': sent_sid, 'host_ids': [s.manager.host_id for s in hosts],
           'owner_host_id': hosts[0].manager.host_id,
           'cb_room': sent_sid, 'cb_id': 1}
    sentinels = []
    echoes = []
    nontrivial = False
    n_err0 = len(rec.errors)
    victims = 0
    for i, (kind, r) in enumerate(case['items']):
        n_err = len(rec.errors)
        if kind == 'handler_raises_cb':
            # a valid callback message for a local callback that raises
            if is_async and r % 3 == 2:
                # a plain callable that hands back a coroutine (the "bind
                # some arguments" idiom) which ends cancelled
                async def _cancelled(*a):
                    import asyncio
                    rec.count('fault.handler_raise.callback_cancelled')
                    raise asyncio.CancelledError()

                def bad_cb(*a):
                    return _cancelled(*a)
            elif is_async and r % 3 == 1:
                async def bad_cb(*a):
                    # e.g. the callback awaited something the application
                    # cancelled: the listener itself was not cancelled
                    import asyncio
                    rec.count('fault.handler_raise.callback_cancelled')
                    raise asyncio.CancelledError()
            else:
                def bad_cb(*a):
                    rec.count('fault.handler_raise.callback')
                    raise RuntimeError('injected callback failure')
            n_log = len(bus.log)
            w.api('h0', 'emit', 'q', 'c%d' % i, to=sent_sid, callback=bad_cb)
            w.settle()
            # the id under which the application's callback itself waits (the
            # manager also keeps a forwarding entry for the local client)
            ids = sorted(k for k, f in hosts[0].manager.callbacks.get(
                sent_sid, {}).items() if isinstance(k, int) and f is bad_cb)
            if ids:
                bus.inject(pickle.dumps({
                    'method': 'callback',
                    'host_id': hosts[0].manager.host_id, 'sid': sent_sid,
                    'namespace': '/', 'id': ids[-1], 'args': ['boom']}))
            nontrivial = True
        elif kind == 'chained_cb':
            # a valid callback message whose application callback uses the
            # server again from inside the listener: it emits with another
            # callback (chained acknowledgements)
            inner_log = []
            if is_async:
                async def chain_cb(*a, i=i):
                    rec.count('app.chained_callback')
                    await hosts[0].emit('q2', 'n%d' % i, to=sent_sid,
                                        callback=lambda *b: inner_log.append(b))
            else:
                def chain_cb(*a, i=i):
                    rec.count('app.chained_callback')
                    hosts[0].emit('q2', 'n%d' % i, to=sent_sid,
                                  callback=lambda *b: inner_log.append(b))
            w.api('h0', 'emit', 'q', 'c%d' % i, to=sent_sid,
                  callback=chain_cb)
            w.settle()
            ids = sorted(k for k, f in hosts[0].manager.callbacks.get(
                sent_sid, {}).items() if isinstance(k, int) and f is chain_cb)
            if ids:
                bus.inject(pickle.dumps({
                    'method': 'callback',
                    'host_id': hosts[0].manager.host_id, 'sid': sent_sid,
                    'namespace': '/', 'id': ids[-1], 'args': ['go']}))
            nontrivial = True
        elif kind == 'handler_raises_disconnect':
            victims += 1
            name = 'victim%d' % victims
            sc.open(name, server='h0')
            vs = sc.connect(name, '/')
            raise_next['disconnect'] = True
            bus.inject(pickle.dumps({'method': 'disconnect', 'sid': vs,
                                     'namespace': '/',
                                     'host_id': 'foreign'}))
            nontrivial = True
        elif kind == 'handler_emits_disconnect':
            victims += 1
            name = 'victim%d' % victims
            sc.open(name, server='h0')
            vs = sc.connect(name, '/')
            raise_next['emit'] = True
            bus.inject(pickle.dumps({'method': 'disconnect', 'sid': vs,
                                     'namespace': '/',
                                     'host_id': 'foreign'}))
            nontrivial = True
        elif kind == 'listen_raises':
            for s in hosts:
                bus.fail_at.setdefault(s.manager.bus_name, set()).add(
                    len(bus.log))
            bus.inject(pickle.dumps(valid_emit('drop%d' % i, 'nobody')))
            nontrivial = True
        elif kind == 'valid_emit':
            bus.inject(pickle.dumps(valid_emit('V%d' % i, sent_sid)))
            sentinels.append('V%d' % i)
        elif kind == 'json_after_nondict':
            # a value that is not a message at all (the listener restarts
            # its iterator), directly followed by a valid message from a
            # publisher that writes JSON text
            bus.inject(make_item(r % 2 and 'json_nondict' or 'pickle_nondict',
                                 r, ctx))
            bus.inject(json.dumps(valid_emit('N%d' % i, sent_sid)))
            sentinels.append('N%d' % i)
            nontrivial = True
        elif kind == 'json_bytes_emit':
            # a valid message from a publisher that writes JSON, handed over
            # by the back end as bytes (as Redis and most brokers do)
            bus.inject(json.dumps(valid_emit('J%d' % i, sent_sid))
                       .encode('utf-8'))
            sentinels.append('J%d' % i)
        else:
            raw = make_item(kind, r, ctx)
            if raw is None:
                continue
            if kind in ('rand_bytes', 'trunc_pickle', 'flip_pickle') and \
                    not unpickler_safe(raw):
                rec.count('skipped.unsafe_for_pickle')
                raw = b'\x80\x04garbage'

            if kind == 'echo_own':
                echoes.append('ECHO%d' % r)
            bus.inject(raw)
        # the sentinel
        tag = 'S%d' % i
        sentinels.append(tag)
        bus.inject(pickle.dumps(valid_emit(tag, sent_sid)))
        for _ in range(6):
            w.settle(horizon=1.0)
            if bus.all_consumed():
                break
        got = [r2['pkt'] for r2 in sc.peers['sent'].rx
               if r2['pkt'].base == sio.EVENT and r2['pkt'].data ==
               ['s', tag]]
        if len(got) != 1:
            v.add('sentinel_delivery', 'after item %d (%s): sentinel %s was '
                  'delivered %d times; bus cursors %s of %d'
                  % (i, kind, tag, len(got),
                     [s.manager.cursor for s in hosts], len(bus.log)),
                  '%s:got%d' % (kind, min(len(got), 2)))
            if not got:
                break
        if len(rec.errors) > n_err:
            nontrivial = True
    # ---- final oracle ----------------------------------------------------
    rx = [r2['pkt'] for r2 in sc.peers['sent'].rx
          if r2['pkt'].base == sio.EVENT]
    for tag in sentinels:
        n = len([p for p in rx if p.data == ['s', tag]])
        if n != 1:
            v.add('sentinel_count', '%s delivered %d times' % (tag, n),
                  'got%d' % min(n, 2))
    for tag in echoes:
        n = len([p for p in rx if p.data == ['s', tag]])
        if n:
            v.add('own_echo_reapplied', '%s (carrying the server\'s own '
                  'host_id) was delivered %d times' % (tag, n))
    if cb_log:
        v.add('callback_fired_by_misaddressed_message', repr(cb_log[:3]))
    # a server never re-applies a message it published itself
    w.api('h0', 'emit', 's', 'OWN', to=sent_sid)
    for _ in range(6):
        w.settle(horizon=1.0)
    n = len([r2 for r2 in sc.peers['sent'].rx
             if r2['pkt'].data == ['s', 'OWN']])
    if n != 1:
        v.add('own_message_applied_again', 'delivered %d times' % n)
    if len(hosts) > 1:
        # ... and what ANOTHER host published is not one of its own
        w.api('h1', 'emit', 's', 'OTHER', to=sent_sid)
        for _ in range(6):
            w.settle(horizon=1.0)
        n = len([r2 for r2 in sc.peers['sent'].rx
                 if r2['pkt'].data == ['s', 'OTHER']])
        if n != 1:
            v.add('other_host_message_not_applied', 'an emit published by '
                  'host h1 for a client of h0 was delivered %d times' % n,
                  'got%d' % min(n, 2))
    if not bus.all_consumed():
        v.add('listener_stopped', 'cursors %s of %d'
              % ([s.manager.cursor for s in hosts], len(bus.log)))
    if w.mode == 'thread':
        from sim.world import exc_site
        for name, e in w.kernel.thread_errors:
            v.add('thread_raised', '%s: %r in %s' % (name, e, exc_site(e)),
                  '%s@%s' % (type(e).__name__, exc_site(e)))
    stats = {'faults': {k: n2 for k, n2 in rec.counters.items()
                        if k.startswith('fault.')},
             'errors_logged_by_listener': len(rec.errors) - n_err0,
             'sentinels': len(sentinels)}
    return {'violations': v.items, 'digest': rec.digest.hex(),
            'nontrivial': nontrivial, 'stats': stats,
            'sim_time': w.now() - 1_700_000_000.0,
            'cfg': '%s/%dhosts' % (cfg['mode'], cfg['nhosts']),
            'choices': w.choices.dump(), 'log': rec.dump_log()}
