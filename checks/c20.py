"""C20 - threaded server: concurrent terminations of one client are safe.

World: threaded server on real engine.io, one wire peer on 1-2 namespaces;
every call the server makes into the client manager and into the engine.io
facade is a pre-emption point (plus handler entry/exit; optionally every
source line of server.py / base_manager.py / manager.py).  2-3 threads each
perform one terminating action on the same session id; schedules by random
and PCT policies."""
import os

from sim import sio
from sim.world import make_world
from .common import V, REAL_SERVER, STUBS

PROP = 'C20'
RUNS = {'quick': 6000, 'thorough': 200000}
BUDGET = {'quick': 100, 'thorough': 1500}
RULE = ('one run = 2-3 concurrent terminating actions on one session id '
        '(server.disconnect from application threads, client DISCONNECT and '
        'transport loss on the reader thread, disconnect of the other '
        'namespace) under one seeded schedule (uniform random or PCT with '
        'd=1..3) with pre-emption at every manager / engine.io access of the '
        'server (quick) or additionally at every source line of the server '
        'and manager (1 run in 4, thorough: 1 in 2); every run is non-trivial '
        '(>= 2 concurrent actions); distinct = distinct order of the '
        'labelled accesses (SHA-256 of the event log)')
REAL = REAL_SERVER
ASSUMPTIONS = ['pre-emption granularity: manager/transport accesses, handler '
               'entry/exit, kernel primitives; optionally source lines; not '
               'bytecodes']
SHRINK_LISTS = ['actions']

ACTIONS = ['sdisc', 'sdisc', 'cdisc', 'sever', 'close', 'sdisc_other',
           'cdisc_other']


def gen(rng, tier):
    n = rng.choice([2, 2, 3])
    actions = [rng.choice(ACTIONS) for _ in range(n)]
    if 'sdisc' not in actions:
        actions[0] = 'sdisc'
    p_line = 0.5 if tier == 'thorough' else 0.25
    cfg = {
        'policy': rng.choice(['random', 'random', 'pct']),
        'pct_depth': rng.randrange(1, 4),
        'two_ns': rng.random() < 0.5,
        'lines': rng.random() < p_line,
        'rooms': rng.random() < 0.5,
        'handler_pause': rng.random() < 0.3,
        # another client keeps the namespace alive
        'bystander': rng.random() < 0.5,
        # the namespace has already seen another client come and be
        # disconnected (sequentially) before the concurrent terminations
        'prior_round': rng.random() < 0.4,
    }
    # optionally one more application thread uses the same session id in a
    # non-terminating call while it is being terminated (only at access
    # granularity: inside the manager's own methods such a call is not
    # atomic with respect to a termination, which is outside this property)
    extra = rng.choice([None, None, 'enter_room', 'leave_room', 'emit'])
    if extra and not cfg['lines']:
        actions.insert(rng.randrange(len(actions) + 1), 'x_' + extra)
    # the OTHER client of the namespace is in the middle of being
    # disconnected by the server (its disconnect handler takes a while) when
    # the concurrent terminations of this one start; it completes after them
    # (two DIFFERENT clients racing inside the manager is not this property)
    cfg['by_leaving'] = cfg['bystander'] and rng.random() < 0.5
    # ... or it is disconnected BY this client's disconnect handler ("the
    # host leaves, kick the guest"): a nested termination of another client
    # inside the handler, which then takes a while
    cfg['handler_kicks'] = cfg['bystander'] and not cfg['by_leaving'] \
        and rng.random() < 0.5
    return {'cfg': cfg, 'actions': actions}


class YieldProxy:
    """Every method call through this proxy is a pre-emption point, logged
    with the calling thread."""

    def __init__(self, target, kernel, rec, name):
        object.__setattr__(self, '_t', target)
        object.__setattr__(self, '_k', kernel)
        object.__setattr__(self, '_rec', rec)
        object.__setattr__(self, '_n', name)

    def __getattr__(self, attr):
        v = getattr(self._t, attr)
        if not callable(v) or attr.startswith('__') or isinstance(v, type):
            return v
        k, rec, name = self._k, self._rec, self._n

        def wrapped(*a, **kw):
            tid = k.cur.tid if k.cur is not None else -1
            k.yield_point('acc')
            rec.add('acc', o=name, m=attr, tid=tid,
                    a=tuple(x for x in a[:2] if isinstance(x, (str, int))))
            r = v(*a, **kw)
            if attr == 'pre_disconnect':
                rec.add('acc_done', o=name, m=attr, tid=tid,
                        a=tuple(x for x in a[:2] if isinstance(x, str)))
            if attr in ('is_connected', 'can_disconnect'):
                rec.add('acc_ret', o=name, m=attr, tid=tid, r=bool(r),
                        a=tuple(x for x in a[:2] if isinstance(x, str)))
            k.yield_point('acc_ret')
            return r
        return wrapped

    def __setattr__(self, attr, value):
        setattr(self._t, attr, value)


def run(case):
    cfg = case['cfg']
    w = make_world('thread', seed=case['seed'],
                   choices_replay=case.get('choices'),
                   policy=cfg['policy'], pct_depth=cfg['pct_depth'],
                   pct_span=120)
    try:
        return _run(case, cfg, w)
    finally:
        w.close()


def _run(case, cfg, w):
    v = V(PROP)
    k = w.kernel
    srv = w.add_server('s', async_handlers=True)

    kicked = []

    def plan(label, args, ev):
        if label[3] == 'disconnect' and args and \
                args[0] in by_sids.values():
            return [('pause', 0.05 if cfg.get('by_leaving') else 0.0),
                    ('ret', None)]
        if label[3] == 'disconnect' and cfg.get('handler_kicks') and \
                label[2] == '/' and not kicked and '/' in by_sids:
            kicked.append(1)
            by_ended.add('/')
            w.rec.count('app.disconnect_from_disconnect_handler')
            return [('do', lambda: srv.disconnect(by_sids['/'],
                                                  namespace='/')),
                    ('pause', 0.002), ('ret', None)]
        if label[3] == 'disconnect' and cfg['handler_pause']:
            return [('pause', 0.001), ('ret', None)]
        return [('ret', None)]
    by_sids = {}
    by_ended = set()
    nss = ['/', '/a'] if cfg['two_ns'] else ['/']
    for ns in nss:
        for evn in ('connect', 'disconnect'):
            srv.on(evn, w.make_handler(('s', 'func', ns, evn), plan),
                   namespace=ns)
    peer = w.add_peer('s')
    peer.open()
    w.settle()
    sids = {}
    for ns in nss:
        peer.send_pkt(sio.CONNECT, ns, None, None)
        w.settle()
        sids[ns] = peer.rx[-1]['pkt'].data['sid']
    if cfg['rooms']:
        for ns in nss:
            srv.enter_room(sids[ns], 'r1', namespace=ns)
    if cfg.get('bystander'):
        other = w.add_peer('s')
        other.open()
        w.settle()
        for ns in nss:
            other.send_pkt(sio.CONNECT, ns, None, None)
            w.settle()
            by_sids[ns] = other.rx[-1]['pkt'].data['sid']
            if cfg['rooms']:
                srv.enter_room(other.rx[-1]['pkt'].data['sid'], 'r1',
                               namespace=ns)
    if cfg.get('prior_round'):
        first = w.add_peer('s')
        first.open()
        w.settle()
        for ns in nss:
            first.send_pkt(sio.CONNECT, ns, None, None)
            w.settle()
            fs = first.rx[-1]['pkt'].data['sid']
            w.call(srv.disconnect, fs, namespace=ns)
            w.settle()
        first.sever(0.0)
        w.settle()
    if cfg.get('by_leaving') and '/' in by_sids:
        w.call(srv.disconnect, by_sids['/'], namespace='/',
               _label=('disconnect-bystander',))
        by_ended.add('/')
        w.settle(horizon=0.01)     # ... its handler is now taking its time
        w.rec.count('app.other_client_mid_disconnect')
    eio_sid = peer.eio_sid
    # from here on every manager / transport access is a pre-emption point
    real_manager = srv.manager
    srv.manager = YieldProxy(real_manager, k, w.rec, 'mgr')
    srv.eio = YieldProxy(srv.eio, k, w.rec, 'eio')
    if cfg['lines']:
        import socketio.server
        import socketio.base_manager
        import socketio.manager
        k.enable_line_preemption([socketio.server.__file__,
                                  socketio.base_manager.__file__,
                                  socketio.manager.__file__])
    target_ns = '/'
    other_ns = '/a' if cfg['two_ns'] else None
    ended = {}   # ns -> set of admissible reasons
    transport_ended = False
    n_actions = 0
    extra_ops = []
    for a in case['actions']:
        if a == 'sdisc':
            w.call(srv.disconnect, sids[target_ns], namespace=target_ns,
                   ignore_queue=bool(w.choices.chance('app', 1, 3, 'igq')),
                   _label=('disconnect', target_ns))
            ended.setdefault(target_ns, set()).add('server disconnect')
        elif a == 'sdisc_other' and other_ns:
            w.call(srv.disconnect, sids[other_ns], namespace=other_ns,
                   ignore_queue=bool(w.choices.chance('app', 1, 3, 'igq')),
                   _label=('disconnect', other_ns))
            ended.setdefault(other_ns, set()).add('server disconnect')
        elif a == 'cdisc':
            peer.send_pkt(sio.DISCONNECT, target_ns, None, None)
            ended.setdefault(target_ns, set()).add('client disconnect')
        elif a == 'cdisc_other' and other_ns:
            peer.send_pkt(sio.DISCONNECT, other_ns, None, None)
            ended.setdefault(other_ns, set()).add('client disconnect')
        elif a.startswith('x_'):
            if cfg['lines']:
                continue
            sid_t = sids[target_ns]
            if a == 'x_enter_room':
                h = w.call(srv.enter_room, sid_t, 'late',
                           namespace=target_ns, _label=('x', 'enter_room'))
            elif a == 'x_leave_room':
                h = w.call(srv.leave_room, sid_t, 'r1', namespace=target_ns,
                           _label=('x', 'leave_room'))
            else:
                h = w.call(srv.emit, 'news', 1, to=sid_t,
                           namespace=target_ns, _label=('x', 'emit'))
            extra_ops.append(h)
            continue
        elif a == 'sever':
            peer.sever(0.0)
            transport_ended = True
            for ns in nss:
                ended.setdefault(ns, set()).update(
                    {'transport close', 'transport error'})
        elif a == 'close':
            peer.send_eio('1')
            peer.close()
            transport_ended = True
            for ns in nss:
                ended.setdefault(ns, set()).update(
                    {'client disconnect', 'transport close'})
        else:
            continue
        n_actions += 1
    w.settle()
    k.trace_files = None
    srv.manager = real_manager
    # ---------------------------------------------------------------- oracle
    acc = [e for e in w.rec.events
           if e['kind'] in ('acc', 'acc_ret', 'acc_done')]
    window = any_check_then_mark(acc, sids) == 'check_then_mark_window'

    def add(clause, detail, qual=''):
        # a run in which two threads both passed the connected-check for one
        # sid exhibits the known check-then-mark defect; everything it causes
        # (second handler run, KeyError in the slower thread, the transport's
        # other namespace losing its notification) is reported under it
        if window:
            v.add('check_then_mark_window', detail,
                  clause + (':' + qual if qual else ''))
        else:
            v.add(clause, detail, qual)
    for ns, reasons in ended.items():
        sid = sids[ns]
        runs = [e for e in w.rec.of('h_enter')
                if e['label'][3] == 'disconnect' and e['args'][0] == sid]
        if len(runs) != 1:
            add('disconnect_handler_count', 'sid %s [%s]: handler ran %d '
                'times under actions %s' % (sid, ns, len(runs),
                                            case['actions']),
                'got%d' % min(len(runs), 2))
        else:
            r = runs[0]['args'][1] if len(runs[0]['args']) > 1 else None
            if r not in reasons:
                add('disconnect_reason', (r, sorted(reasons)))
        if real_manager.is_connected(sid, ns):
            add('residue_connected', (sid, ns))
        if srv.rooms(sid, ns):
            add('residue_rooms', (sid, ns, srv.rooms(sid, ns)))
        for rns, rooms in real_manager.rooms.items():
            for room, members in rooms.items():
                if sid in members:
                    add('residue_rooms', (sid, rns, room))
                    break
        if sid in real_manager.callbacks:
            add('residue_callbacks', sid)
        for pns, lst in real_manager.pending_disconnect.items():
            if sid in lst:
                add('residue_pending_mark', (sid, pns))
    for ns in by_ended:
        bs = by_sids[ns]
        runs = [e for e in w.rec.of('h_enter')
                if e['label'][3] == 'disconnect' and e['args'][0] == bs]
        if len(runs) != 1:
            add('disconnect_handler_count', 'the other client %s [%s], '
                'disconnected once by the server meanwhile: handler ran %d '
                'times' % (bs, ns, len(runs)),
                'bystander:got%d' % min(len(runs), 2))
        if real_manager.is_connected(bs, ns) or srv.rooms(bs, ns):
            add('residue_connected', ('bystander', bs, ns))
    if transport_ended:
        if eio_sid in srv.environ:
            add('residue_environ', eio_sid)
    for o in w.ops:
        if o in extra_ops:
            # the non-terminating call may find the client gone and say so
            if not o.done:
                add('thread_stuck', repr(o.label))
            elif o.exc is not None and not isinstance(
                    o.exc, (KeyError, ValueError)):
                add('extra_call_raised', '%s raised %r' % (o.label, o.exc),
                    type(o.exc).__name__)
            continue
        if o.exc is not None:
            add('thread_raised', '%s raised %r in %s' % (o.label, o.exc,
                                                         o.site),
                '%s@%s' % (type(o.exc).__name__, o.site))
        elif not o.done:
            add('thread_stuck', repr(o.label))
    from sim.world import exc_site
    for name, e in k.thread_errors:
        add('thread_raised', '%s: %r in %s' % (name, e, exc_site(e)),
            '%s@%s' % (type(e).__name__, exc_site(e)))
    for e in w.rec.errors:
        ex = (e.get('exc') or e['msg']).split(':')[0][:40]
        add('error_logged', '%s %s in %s' % (e['msg'], e.get('exc'),
                                             e.get('site')),
            '%s@%s' % (ex, e.get('site')))
    stats = {'actions': {a: case['actions'].count(a)
                         for a in set(case['actions'])},
             'steps': k.steps, 'yields': k.yields,
             'contended_picks': k.contended,
             'line_preemption_runs': 1 if cfg['lines'] else 0}
    return {'violations': v.items, 'digest': w.rec.digest.hex(),
            'nontrivial': n_actions >= 2, 'stats': stats,
            'sim_time': w.now() - 1_700_000_000.0,
            'cfg': '%s/lines=%s' % (cfg['policy'], cfg['lines']),
            'choices': w.choices.dump(), 'log': w.rec.dump_log()}


def check_then_mark_pattern(acc, sid, ns):
    """The known window: two threads both got `is_connected(sid) -> True`
    (directly or via can_disconnect); for each of them the very next manager
    / engine.io access after that check is `pre_disconnect(sid)` (the check
    is immediately followed by the mark, as in the shipped code); and every
    later thread's check call started while some other thread was between
    its own successful check and the completion of its `pre_disconnect` - it
    slipped in between check and mark (this includes two marks racing each
    other inside pre_disconnect, where one overwrites the other's list).  A
    check that succeeds when no such window is open, or a thread doing
    anything else between its check and its mark, is a different defect and
    is not the known finding."""
    if sid is None:
        return 'other'
    ok = []           # (tid, seq of the check call, seq of its mark's return)
    for i, e in enumerate(acc):
        if e['kind'] == 'acc_ret' and e['m'] in ('is_connected',
                                                 'can_disconnect') \
                and e['a'][:1] == (sid,) and e['r']:
            tid = e['tid']
            # the call that produced this result
            start = None
            for f in reversed(acc[:i]):
                if f['kind'] == 'acc' and f['tid'] == tid and \
                        f['m'] == e['m']:
                    start = f['seq']
                    break
            nxt = None
            for f in acc[i + 1:]:
                if f['kind'] == 'acc' and f['tid'] == tid:
                    if f['m'] == 'is_connected' and \
                            e['m'] == 'can_disconnect':
                        continue
                    nxt = f
                    break
            if nxt is None:
                continue
            if nxt['m'] != 'pre_disconnect' or nxt['a'][:1] != (sid,):
                return 'other'
            done = None
            for f in acc:
                if f['kind'] == 'acc_done' and f['tid'] == tid and \
                        f['seq'] > nxt['seq']:
                    done = f['seq']
                    break
            ok.append((tid, start if start is not None else e['seq'],
                       done if done is not None else 10 ** 12))
    tids = {x[0] for x in ok}
    if len(tids) < 2:
        return 'other'
    ok.sort(key=lambda x: x[1])
    for i, (tid, start, done) in enumerate(ok):
        if i == 0:
            continue
        # when this check started, some other thread must have been between
        # its own successful check and the completion of its mark
        if not any(t2 != tid and s2 < start < d2 for t2, s2, d2 in ok):
            return 'other'      # no window was open: a different defect
    return 'check_then_mark_window'


def any_check_then_mark(acc, sids):
    for ns, sid in sids.items():
        if check_then_mark_pattern(acc, sid, ns) == 'check_then_mark_window':
            return 'check_then_mark_window'
    return 'other'
