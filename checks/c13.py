"""C13 - handler resolution follows the documented precedence on server and
client.

The precedence rule itself is a pure function of (registry, event); for
ordinary events the simulator is only an end-to-end driver.  What needs a
running system is the second half of the property: the reserved events are not
sent by anybody, they are raised by the lifecycle - connect by an accepted
request, connect_error by a refusal, disconnect by each cause including
transport loss - on both stacks, for sync and coroutine handlers.

The grid of 2**6 presence/absence combinations x {other unrelated handlers or
not} x {Server, AsyncServer, Client, AsyncClient} x {sync, coroutine} is
enumerated exhaustively (run index -> configuration); names and arguments are
drawn per run."""
from sim import sio
from sim.world import make_world
from sim.util import typed_eq, wire_norm, gen_value
from .common import V, trepr, REAL_SERVER, REAL_CLIENT, STUBS
import socketio

PROP = 'C13'
VARIANTS = [('server', 'thread', False), ('server', 'async', False),
            ('server', 'async', True), ('client', 'thread', False),
            ('client', 'async', False), ('client', 'async', True)]
GRID = 64 * 2 * len(VARIANTS)     # 768
RUNS = {'quick': GRID * 2, 'thorough': GRID * 40}
BUDGET = {'quick': 100, 'thorough': 1500}
RULE = ('finite grid of 768 configurations (64 presence combinations of the '
        'six kinds of target x other-unrelated-handlers x 6 stack variants) '
        'enumerated exhaustively, each configuration run with seeded '
        'namespace names, event names and arguments through one ordinary '
        'event and a full lifecycle (connect, event, each kind of end; on the '
        'client also a refusal); every configuration is non-trivial; '
        'distinct = distinct SHA-256 of the event log')
REAL = REAL_SERVER + REAL_CLIENT
ASSUMPTIONS = ['ordinary-event slice has no fault or schedule dimension '
               '(stated in DESIGN 4/C13)']
SHRINK_LISTS = []
NS_POOL = ['/', '/chat', '/a-b', '/x/y', '/A']
EV_POOL = ['ev', 'my event', 'update', 'x-y', 'E1', 'message', 'on']


def gen(rng, tier):
    # the run seed's low part enumerates the grid; see run()
    return {'ns': rng.choice(NS_POOL), 'ev': rng.choice(EV_POOL),
            'args': [gen_value(rng, 1) for _ in range(rng.randrange(0, 3))],
            'id': rng.choice([None, 0, 5, 77]),
            'auth': rng.choice([None, {'t': 1}]),
            'end': rng.choice(['cdisc', 'sdisc', 'sever']),
            # class-based namespaces that override trigger_event() (the
            # documented way to catch every event in one method) instead of
            # defining on_<event> methods
            'override': rng.random() < 0.25,
            # the chosen target fails (a handler using the session of a
            # client whose transport has just gone gets a KeyError, ...):
            # the failure is not "no target here", nothing else runs
            # afterwards the same registry serves TWO namespaces at once
            # (the second one has no handlers of its own): the same event
            # name arrives on both
            'ns2': rng.choice(['/chat2', '/z', '/A/b', '/']),
            'raises': rng.choice([None, 'KeyError', 'KeyError',
                                  'AttributeError', 'TypeError',
                                  'LookupError', 'ValueError'])}


def config_of(seed):
    i = seed % GRID
    bits = i % 64
    other = (i // 64) % 2
    variant = VARIANTS[i // 128]
    return bits, bool(other), variant


def sample(case):
    bits, other, variant = config_of(case['seed'])
    return {'bits': format(bits, '06b'), 'other': other, 'variant': variant,
            'case': {k: case[k] for k in ('ns', 'ev', 'args', 'id', 'end')}}


def expected_target(bits, event, reserved):
    """The documented order.  bits: 1=(ns,ev) 2=(ns,*) 4=(*,ev) 8=(*,*)
    16=class ns 32=class *.  -> (kind, prefix_spec) or None."""
    is_res = event in reserved
    if bits & 1:
        return ('func', 'NS', 'EV', [])
    if bits & 2 and not is_res:
        return ('func', 'NS', '*', ['event'])
    if bits & 4:
        return ('func', '*', 'EV', ['ns'])
    if bits & 8 and not is_res:
        return ('func', '*', '*', ['event', 'ns'])
    if bits & 16:
        return ('class', 'NS', 'EV', [])
    if bits & 32:
        return ('class', '*', 'EV', ['ns'])
    return None


def run(case):
    bits, other, (side, mode, coroutine) = config_of(case['seed'])
    w = make_world(mode, seed=case['seed'],
                   choices_replay=case.get('choices'), policy='fifo')
    try:
        if side == 'server' and case.get('override') and bits & 48:
            return _run_override(case, bits, other, mode, coroutine, w)
        if side == 'server':
            return _run_server(case, bits, other, mode, coroutine, w)
        return _run_client(case, bits, other, mode, coroutine, w)
    finally:
        w.close()


def _register(w, target, who, bits, other, ns, events, plan, coroutine,
              client):
    """events: the event names that follow the presence bits (the ordinary
    one and the reserved ones)."""
    def on(nsx, evx):
        target.on(evx, w.make_handler((who, 'func', nsx, evx), plan,
                                      coroutine), namespace=nsx)
    for evx in events:
        if bits & 1:
            on(ns, evx)
        if bits & 4:
            on('*', evx)
    if bits & 2:
        on(ns, '*')
    if bits & 8:
        on('*', '*')
    if other:
        on(ns, 'unrelated')
        on('*', 'unrelated2')
    if w.mode == 'async':
        base = socketio.AsyncClientNamespace if client \
            else socketio.AsyncNamespace
    else:
        base = socketio.ClientNamespace if client else socketio.Namespace
    if bits & 16:
        target.register_namespace(w.make_namespace(
            ns, list(events) + (['unrelated'] if other else []), plan,
            server=who, coroutine=coroutine, base=base))
    if bits & 32:
        target.register_namespace(w.make_namespace(
            '*', list(events) + (['unrelated2'] if other else []), plan,
            server=who, coroutine=coroutine, base=base))


def _check(v, w, n0, what, tgt, ns, ev, who, core_args):
    """Exactly the expected target ran, once, with the documented prefix."""
    new = [e for e in w.rec.events[n0:] if e['kind'] == 'h_enter'
           and not e['label'][3].startswith('unrelated')]
    if tgt is None:
        if new:
            v.add('ran_without_target', '%s: %s'
                  % (what, [(e['label'], trepr(e['args'])) for e in new]),
                  what.split()[0])
        return
    kind, lns, lev, prefix = tgt
    label = (who, kind, ns if lns == 'NS' else '*',
             ev if lev == 'EV' else '*')
    pre = [ev if x == 'event' else ns for x in prefix]
    want = tuple(pre + list(core_args))
    if len(new) != 1:
        v.add('target_count', '%s: expected exactly %s, ran %s'
              % (what, label, [e['label'] for e in new]),
              '%s:got%d' % (what.split()[0], min(len(new), 2)))
        return
    e = new[0]
    if tuple(e['label']) != label:
        v.add('wrong_target', '%s: expected %s, ran %s'
              % (what, label, e['label']), what.split()[0])
    elif not typed_eq(tuple(e['args']), want):
        v.add('wrong_arguments', '%s: expected %s, got %s'
              % (what, trepr(want), trepr(e['args'])), what.split()[0])


RAISE = 'RAISE!'
RAISES = ['KeyError', 'LookupError', 'AttributeError', 'TypeError',
          'ValueError', 'IndexError']


def _raise_plan(case, args):
    # (every run tries every exception type: the grid is small, and which
    # type a sloppy try/except swallows must not be left to the draw)
    if len(args) >= 2 and args[-2] == RAISE:
        import builtins
        return [('raise', getattr(builtins, args[-1])(
            'injected handler failure'))]
    return None


def _result(v, w, bits, other, variant):
    for e in w.rec.errors:
        if 'injected handler failure' in (e.get('exc') or ''):
            continue
        v.add('error_logged', '%s %s in %s' % (e['msg'], e.get('exc'),
                                               e.get('site')),
              '%s@%s' % ((e.get('exc') or e['msg']).split(':')[0][:40],
                         e.get('site')))
    return {'violations': v.items, 'digest': w.rec.digest.hex(),
            'nontrivial': True, 'stats': {'grid_cells': 1},
            'sim_time': w.now() - 1_700_000_000.0,
            'cfg': '%s/%s/%s' % variant,
            'cell': '%d/%d/%s' % (bits, other, variant),
            'choices': w.choices.dump(), 'log': w.rec.dump_log()}


def _run_server(case, bits, other, mode, coroutine, w):
    v = V(PROP)
    ns, ev = case['ns'], case['ev']
    reserved = ('connect', 'disconnect')
    srv = w.add_server('s', namespaces='*', async_handlers=False)

    def plan(label, args, evt):
        if label[3] == 'connect' or (label[3] == '*' and False):
            return [('ret', None)]
        if label[3] == '*' and 'lazy-ev' in args[:2] and \
                not lazy_done:
            # a catch-all that registers the real handler the first time it
            # sees an event (from inside itself)
            lazy_done.append(1)
            return [('do', lambda: srv.on(
                'lazy-ev', w.make_handler(('s', 'func', ns, 'lazy-ev'), plan,
                                          coroutine), namespace=ns)),
                    ('ret', 'R')]
        return _raise_plan(case, args) or [('ret', 'R')]
    lazy_done = []
    _register(w, srv, 's', bits, other, ns, [ev, 'connect', 'disconnect'],
              plan, coroutine, client=False)
    peer = w.add_peer('s')
    peer.open()
    w.settle()
    # connect (reserved, raised by the lifecycle)
    n0 = len(w.rec.events)
    peer.send_pkt(sio.CONNECT, ns, None, case['auth'])
    w.settle()
    ans = [r['pkt'] for r in peer.rx if r['pkt'].nsp == ns]
    if not ans or ans[0].type != sio.CONNECT:
        v.add('connect_not_accepted', repr(ans))
        return _result(v, w, bits, other, ('server', mode, coroutine))
    sid = ans[0].data['sid']
    core = [sid, '<environ>'] + ([case['auth']] if case['auth'] else [])
    tgt = expected_target(bits, 'connect', reserved)
    new = [e for e in w.rec.events[n0:] if e['kind'] == 'h_enter']
    if new and tgt is not None and len(new[0]['args']) == len(core) + 1 + \
            len(tgt[3]) and new[0]['args'][-1] is None:
        core = core + [None]      # handler(sid, environ, None) is admissible
    _check(v, w, n0, 'connect (lifecycle)', tgt, ns, 'connect', 's', core)
    # ordinary event
    n0 = len(w.rec.events)
    n_rx = len(peer.rx)
    peer.send_pkt(sio.EVENT, ns, case['id'], [ev] + case['args'])
    w.settle()
    tgt = expected_target(bits, ev, reserved)
    _check(v, w, n0, 'event', tgt, ns, ev, 's',
           [sid] + wire_norm(case['args']))
    acks = [r['pkt'] for r in peer.rx[n_rx:] if r['pkt'].base == sio.ACK]
    want_ack = case['id'] is not None and tgt is not None
    if want_ack != (len(acks) == 1):
        v.add('ack_presence', 'id %r target %s: acks %s'
              % (case['id'], tgt, acks))
    for exn in RAISES:
        n0 = len(w.rec.events)
        peer.send_pkt(sio.EVENT, ns, None, [ev] + case['args'] + [RAISE,
                                                                  exn])
        w.settle()
        w.rec.count('fault.handler_raise')
        _check(v, w, n0, 'raising-target', tgt, ns, ev, 's',
               [sid] + wire_norm(case['args']) + [RAISE, exn])
    if bits & (2 | 8):
        # lazy registration from inside the catch-all, then the event again
        t_first = ('func', 'NS', '*', ['event']) if bits & 2 else \
            ('func', '*', '*', ['event', 'ns'])
        n0 = len(w.rec.events)
        peer.send_pkt(sio.EVENT, ns, None, ['lazy-ev', 1])
        w.settle()
        _check(v, w, n0, 'lazy-first', t_first, ns, 'lazy-ev', 's', [sid, 1])
        n0 = len(w.rec.events)
        peer.send_pkt(sio.EVENT, ns, None, ['lazy-ev', 2])
        w.settle()
        _check(v, w, n0, 'lazy-second', ('func', 'NS', 'EV', []), ns,
               'lazy-ev', 's', [sid, 2])
    # an event nobody registered anywhere: dropped unless a catch-all exists
    n0 = len(w.rec.events)
    peer.send_pkt(sio.EVENT, ns, None, ['nobody-handles-this', 1])
    w.settle()
    tgt2 = None
    if bits & 2:
        tgt2 = ('func', 'NS', '*', ['event'])
    elif bits & 8:
        tgt2 = ('func', '*', '*', ['event', 'ns'])
    if tgt2 is None:
        new = [e for e in w.rec.events[n0:] if e['kind'] == 'h_enter']
        if new:
            v.add('unhandled_event_not_dropped', [e['label'] for e in new])
    else:
        _check(v, w, n0, 'unregistered-event', tgt2, ns,
               'nobody-handles-this', 's', [sid, 1])
    # the registry grows while the server runs: a function handler of higher
    # precedence than the one that took the event is registered under a
    # DIFFERENT key, and the same event arrives again
    late_bits = [0]      # what the registrations below add for `ev`
    order = [(1, ns, ev), (2, ns, '*'), (4, '*', ev), (8, '*', '*')]
    cur = expected_target(bits, ev, reserved)
    cur_rank = {('func', 'NS', 'EV'): 0, ('func', 'NS', '*'): 1,
                ('func', '*', 'EV'): 2, ('func', '*', '*'): 3}.get(
                    cur[:3] if cur else None, 4)
    cands = [(b, n2, e2) for i, (b, n2, e2) in enumerate(order)
             if i < cur_rank and not bits & b and i > 0]
    if cands:
        b, n2, e2 = cands[case['seed'] % len(cands)]
        srv.on(e2, w.make_handler(('s', 'func', n2, e2), plan, coroutine),
               namespace=n2)
        late_bits[0] |= b
        if b in (2, 8):
            bits |= b        # a catch-all: also takes the other events below
        n0 = len(w.rec.events)
        peer.send_pkt(sio.EVENT, ns, None, [ev] + case['args'])
        w.settle()
        _check(v, w, n0, 'late-registration',
               expected_target(bits | b, ev, reserved), ns, ev, 's',
               [sid] + wire_norm(case['args']))
    if mode == 'async':
        # the registry changes while the server runs: a handler of the OTHER
        # kind (plain function <-> coroutine) is registered for exactly this
        # namespace and event, and the same event arrives again
        srv.on(ev, w.make_handler(('s', 'func', ns, ev), plan,
                                  not coroutine), namespace=ns)
        late_bits[0] |= 1
        n0 = len(w.rec.events)
        n_rx = len(peer.rx)
        peer.send_pkt(sio.EVENT, ns, 31, [ev] + case['args'])
        w.settle()
        _check(v, w, n0, 're-registered', ('func', 'NS', 'EV', []), ns, ev,
               's', [sid] + wire_norm(case['args']))
        acks = [r['pkt'] for r in peer.rx[n_rx:] if r['pkt'].base == sio.ACK]
        if [(a.id, a.data) for a in acks] != [(31, ['R'])]:
            v.add('ack_content', 're-registered handler: acks %s' % acks,
                  're-registered')
    # an event literally named '*': an ordinary event name like any other
    # (it cannot have a handler of its own: on('*') IS the catch-all), so it
    # goes to the catch-all with its name prepended, or is dropped
    tgt2 = ('func', 'NS', '*', ['event']) if bits & 2 else \
        ('func', '*', '*', ['event', 'ns']) if bits & 8 else None
    n0 = len(w.rec.events)
    peer.send_pkt(sio.EVENT, ns, None, ['*', 7])
    w.settle()
    if tgt2 is None:
        new = [e for e in w.rec.events[n0:] if e['kind'] == 'h_enter']
        if new:
            v.add('unhandled_event_not_dropped', [e['label'] for e in new],
                  'star')
    else:
        _check(v, w, n0, 'star-event', tgt2, ns, '*', 's', [sid, 7])
    if not (bits | late_bits[0]) & (2 | 8 | 16 | 32):
        # an event without any target is dropped; then a class-based
        # namespace that handles it is registered, and it arrives again
        n0 = len(w.rec.events)
        peer.send_pkt(sio.EVENT, ns, None, ['lateclass', 1])
        w.settle()
        new = [e for e in w.rec.events[n0:] if e['kind'] == 'h_enter']
        if new:
            v.add('unhandled_event_not_dropped', [e['label'] for e in new],
                  'lateclass')
        key = ns if case['seed'] % 2 else '*'
        base = socketio.AsyncNamespace if mode == 'async' \
            else socketio.Namespace
        srv.register_namespace(w.make_namespace(
            key, ['lateclass'], plan, server='s', coroutine=coroutine,
            base=base))
        n0 = len(w.rec.events)
        peer.send_pkt(sio.EVENT, ns, None, ['lateclass', 2])
        w.settle()
        _check(v, w, n0, 'late-class-namespace',
               ('class', 'NS', 'EV', []) if key == ns else
               ('class', '*', 'EV', ['ns']), ns, 'lateclass', 's',
               [sid, 2])
    # disconnect (reserved), by one of the causes
    n0 = len(w.rec.events)
    end = case['end']
    if end == 'cdisc':
        peer.send_pkt(sio.DISCONNECT, ns, None, None)
        reason = 'client disconnect'
    elif end == 'sdisc':
        w.api('s', 'disconnect', sid, namespace=ns)
        reason = 'server disconnect'
    else:
        peer.sever(0.0)
        reason = 'transport close'
    w.settle()
    tgt = expected_target(bits, 'disconnect', reserved)
    _check(v, w, n0, 'disconnect (lifecycle: %s)' % end, tgt, ns,
           'disconnect', 's', [sid, reason])
    ns2 = case.get('ns2')
    if ns2 and ns2 != ns:
        # another client, on both namespaces; only the catch-all
        # namespace's targets exist for the second one
        w.settle()
        p2 = w.add_peer('s')
        p2.open()
        w.settle()
        sids = {}
        for nsx in (ns, ns2):
            n_rx = len(p2.rx)
            p2.send_pkt(sio.CONNECT, nsx, None, None)
            w.settle()
            for r in p2.rx[n_rx:]:
                if r['pkt'].type == sio.CONNECT and r['pkt'].nsp == nsx:
                    sids[nsx] = r['pkt'].data['sid']
        bits1 = bits | late_bits[0]
        bits2 = bits1 & (4 | 8 | 32)
        if len(sids) == 2:
            for i, (nsx, bx) in enumerate([(ns, bits1), (ns2, bits2),
                                           (ns, bits1), (ns2, bits2)]):
                n0 = len(w.rec.events)
                p2.send_pkt(sio.EVENT, nsx, None, [ev, 'two', i])
                w.settle()
                _check(v, w, n0, 'two-namespaces',
                       expected_target(bx, ev, reserved), nsx, ev, 's',
                       [sids[nsx], 'two', i])
    return _result(v, w, bits, other, ('server', mode, coroutine))


def _run_override(case, bits, other, mode, coroutine, w):
    """Server with function handlers per bits 1/2/4/8 and class-based
    namespaces (bits 16/32) whose trigger_event() is overridden."""
    from sim.world import clean
    v = V(PROP)
    ns, ev = case['ns'], case['ev']
    reserved = ('connect', 'disconnect')
    srv = w.add_server('s', namespaces='*', async_handlers=False)
    rec = w.rec

    def plan(label, args, evt):
        return [('ret', None if label[3] == 'connect' else 'R')]
    _register(w, srv, 's', bits & 15, other, ns, [ev, 'connect', 'disconnect'],
              plan, coroutine, client=False)
    if mode == 'async':
        class Catch(socketio.AsyncNamespace):
            async def trigger_event(self_, event, *args):
                rec.add('h_enter', label=('s', 'class', self_.namespace,
                                          event), args=clean(args))
                return None if event == 'connect' else 'R'
    else:
        class Catch(socketio.Namespace):
            def trigger_event(self_, event, *args):
                rec.add('h_enter', label=('s', 'class', self_.namespace,
                                          event), args=clean(args))
                return None if event == 'connect' else 'R'
    if bits & 16:
        srv.register_namespace(Catch(ns))
    if bits & 32:
        srv.register_namespace(Catch('*'))

    def target(event):
        t = expected_target(bits & 15, event, reserved)
        if t is not None:
            return t
        if bits & 16:
            return ('class', 'NS', 'EV', [])
        return ('class', '*', 'EV', ['ns'])
    peer = w.add_peer('s')
    peer.open()
    w.settle()
    n0 = len(w.rec.events)
    peer.send_pkt(sio.CONNECT, ns, None, None)
    w.settle()
    ans = [r['pkt'] for r in peer.rx if r['pkt'].nsp == ns]
    if not ans or ans[0].type != sio.CONNECT:
        v.add('connect_not_accepted', repr(ans), 'override')
        return _result(v, w, bits, other, ('server', mode, coroutine))
    sid = ans[0].data['sid']
    new = [e for e in w.rec.events[n0:] if e['kind'] == 'h_enter']
    core = [sid, '<environ>']
    tgt = target('connect')
    if new and len(new[0]['args']) == len(core) + 1 + len(tgt[3]) and \
            new[0]['args'][-1] is None:
        core = core + [None]
    _check(v, w, n0, 'connect (override)', tgt, ns, 'connect', 's', core)
    for name, evn, args, id_ in (('event', ev, case['args'], 6),
                                 ('unregistered-event',
                                  'nobody-handles-this', [1], 7)):
        n0 = len(w.rec.events)
        n_rx = len(peer.rx)
        peer.send_pkt(sio.EVENT, ns, id_, [evn] + args)
        w.settle()
        t = target(evn) if name == 'event' else (
            ('func', 'NS', '*', ['event']) if bits & 2 else
            ('func', '*', '*', ['event', 'ns']) if bits & 8 else
            ('class', 'NS', 'EV', []) if bits & 16 else
            ('class', '*', 'EV', ['ns']))
        _check(v, w, n0, name + ' (override)', t, ns, evn, 's',
               [sid] + wire_norm(args))
        acks = [r['pkt'] for r in peer.rx[n_rx:] if r['pkt'].base == sio.ACK]
        if [(a.id, a.data) for a in acks] != [(id_, ['R'])]:
            v.add('ack_content', '%s: acks %s' % (name, acks), 'override')
    n0 = len(w.rec.events)
    peer.send_pkt(sio.DISCONNECT, ns, None, None)
    w.settle()
    _check(v, w, n0, 'disconnect (override)', target('disconnect'), ns,
           'disconnect', 's', [sid, 'client disconnect'])
    return _result(v, w, bits, other, ('server', mode, coroutine))


def _run_client(case, bits, other, mode, coroutine, w):
    v = V(PROP)
    ns, ev = case['ns'], case['ev']
    reserved = ('connect', 'disconnect', 'connect_error',
                '__disconnect_final')
    ss = w.add_scripted_server('s')
    script = {'mode': 'accept'}

    def on_packet(eio_sid, p):
        if p.type == sio.CONNECT:
            if script['mode'] == 'accept':
                return ss.send_pkt(sio.CONNECT, p.nsp, None,
                                   {'sid': 'sid' + p.nsp})
            return ss.send_pkt(sio.CONNECT_ERROR, p.nsp, None,
                               {'message': 'nope', 'data': [1, 2]})
    ss.on_packet = on_packet
    c = w.add_client('c', reconnection=False)

    def plan(label, args, evt):
        return _raise_plan(case, args) or [('ret', 'R')]
    _register(w, c, 'c', bits, other, ns,
              [ev, 'connect', 'disconnect', 'connect_error'], plan,
              coroutine, client=True)
    # refusal first: connect_error is raised by the lifecycle
    script['mode'] = 'refuse'
    n0 = len(w.rec.events)
    h = w.call(c.connect, 'http://s', transports=['websocket'],
               namespaces=[ns], wait_timeout=2)
    w.settle()
    w.advance(3.0)
    if h.exc is None:
        v.add('refused_connect_did_not_raise', repr(h))
    tgt = expected_target(bits, 'connect_error', reserved)
    new = [e for e in w.rec.events[n0:] if e['kind'] == 'h_enter'
           and e['label'][3] in ('connect_error', '*')]
    _check(v, w, n0, 'connect_error (lifecycle)', tgt, ns, 'connect_error',
           'c', [{'message': 'nope', 'data': [1, 2]}])
    w.settle()
    # accepted connect
    script['mode'] = 'accept'
    n0 = len(w.rec.events)
    h = w.call(c.connect, 'http://s', transports=['websocket'],
               namespaces=[ns], wait_timeout=2)
    w.settle()
    if h.exc is not None or not c.connected:
        v.add('connect_failed', '%r' % (h.exc,))
        return _result(v, w, bits, other, ('client', mode, coroutine))
    tgt = expected_target(bits, 'connect', reserved)
    _check(v, w, n0, 'connect (lifecycle)', tgt, ns, 'connect', 'c', [])
    # ordinary event
    n0 = len(w.rec.events)
    n_rx = len(ss.rx)
    ss.send_pkt(sio.EVENT, ns, case['id'], [ev] + case['args'])
    w.settle()
    tgt = expected_target(bits, ev, reserved)
    _check(v, w, n0, 'event', tgt, ns, ev, 'c', wire_norm(case['args']))
    acks = [r['pkt'] for r in ss.rx[n_rx:] if r['pkt'].base == sio.ACK]
    if (case['id'] is not None) != (len(acks) == 1):
        v.add('ack_presence', 'id %r: acks %s' % (case['id'], acks))
    elif acks:
        want = ['R'] if tgt is not None else []
        if acks[0].data != want or acks[0].nsp != ns or \
                acks[0].id != case['id']:
            v.add('ack_content', '%s, wanted %s' % (acks[0], want))
    for exn in RAISES:
        n0 = len(w.rec.events)
        ss.send_pkt(sio.EVENT, ns, None, [ev] + case['args'] + [RAISE, exn])
        w.settle()
        w.rec.count('fault.handler_raise')
        _check(v, w, n0, 'raising-target', tgt, ns, ev, 'c',
               wire_norm(case['args']) + [RAISE, exn])
    # an event literally named '*' (see the server side)
    n0 = len(w.rec.events)
    ss.send_pkt(sio.EVENT, ns, None, ['*', 7])
    w.settle()
    tgt2 = None
    if bits & 2:
        tgt2 = ('func', 'NS', '*', ['event'])
    elif bits & 8:
        tgt2 = ('func', '*', '*', ['event', 'ns'])
    if tgt2 is None:
        new = [e for e in w.rec.events[n0:] if e['kind'] == 'h_enter']
        if new:
            v.add('unhandled_event_not_dropped', [e['label'] for e in new],
                  'star')
    else:
        _check(v, w, n0, 'star-event', tgt2, ns, '*', 'c', [7])
    # disconnect by one of the causes
    n0 = len(w.rec.events)
    end = case['end']
    if end == 'cdisc':
        w.call(c.disconnect)
        reason = 'client disconnect'
    elif end == 'sdisc':
        ss.send_pkt(sio.DISCONNECT, ns, None, None)
        reason = 'server disconnect'
    else:
        for cn in w.net.conns:
            if not cn.severed:
                cn.sever(0.0, 0.0)
        reason = 'transport error'
    w.settle()
    tgt = expected_target(bits, 'disconnect', reserved)
    _check(v, w, n0, 'disconnect (lifecycle: %s)' % end, tgt, ns,
           'disconnect', 'c', [reason])
    ns2 = case.get('ns2')
    if ns2 and ns2 != ns:
        # a further connection, to both namespaces; only the catch-all
        # namespace's targets exist for the second one
        w.settle()
        w.advance(1010.0)     # (engine.io's lingering write loop, see C08)
        w.settle()
        h = w.call(c.connect, 'http://s', transports=['websocket'],
                   namespaces=[ns, ns2], wait_timeout=2)
        w.settle()
        if h.exc is not None or not c.connected:
            v.add('connect_failed', 'second connection: %r' % (h.exc,))
            return _result(v, w, bits, other, ('client', mode, coroutine))
        bits2 = bits & (4 | 8 | 32)
        for i, (nsx, bx) in enumerate([(ns, bits), (ns2, bits2), (ns, bits),
                                       (ns2, bits2)]):
            n0 = len(w.rec.events)
            ss.send_pkt(sio.EVENT, nsx, None, [ev, 'two', i])
            w.settle()
            _check(v, w, n0, 'two-namespaces',
                   expected_target(bx, ev, reserved), nsx, ev, 'c',
                   ['two', i])
            n0 = len(w.rec.events)
            ss.send_pkt(sio.EVENT, nsx, None, ['nobody-handles-this', i])
            w.settle()
            t2 = ('func', 'NS', '*', ['event']) if bx & 2 else \
                ('func', '*', '*', ['event', 'ns']) if bx & 8 else None
            if t2 is None:
                new = [e for e in w.rec.events[n0:]
                       if e['kind'] == 'h_enter']
                if new:
                    v.add('unhandled_event_not_dropped',
                          [e['label'] for e in new], 'two-namespaces')
            else:
                _check(v, w, n0, 'two-namespaces-catchall', t2, nsx,
                       'nobody-handles-this', 'c', [i])
    return _result(v, w, bits, other, ('client', mode, coroutine))
