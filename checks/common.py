"""Pieces shared by the server-side checks: registry generation, the
documented handler-precedence table (the model's own reading of it), return
value shapes, violation helper."""
from sim import sio
from sim.util import typed_eq, wire_norm, expect_args, contains_bytes

RESERVED_SERVER = ('connect', 'disconnect')
RESERVED_CLIENT = ('connect', 'disconnect', 'connect_error',
                   '__disconnect_final')

REAL_SERVER = ['socketio.Server / AsyncServer, Manager / AsyncManager, '
               'packet codecs (unmodified, from /repo/src)',
               'engineio.Server / AsyncServer with real Socket / AsyncSocket '
               'reader and writer loops, ping logic, event dispatch']
REAL_CLIENT = ['socketio.Client / AsyncClient (unmodified, from /repo/src)',
               'engineio.Client / AsyncClient with real read/write loops and '
               'state machine']
STUBS = ['websocket byte pipe (sim.net: latency, back-pressure, close, sever)',
         'clock (virtual)', 'scheduler (SimLoop FIFO ready queue / SimKernel '
         'baton-passing threads)', 'entropy (secrets, uuid, random: seeded)',
         'application handlers and callbacks (generated workload)']


class V:
    """Violation collector."""

    def __init__(self, prop):
        self.prop = prop
        self.items = []

    def add(self, clause, detail, qual=''):
        sig = '%s:%s%s' % (self.prop, clause, (':' + qual) if qual else '')
        self.items.append({'clause': clause, 'sig': sig,
                           'detail': detail if isinstance(detail, str)
                           else repr(detail)})

    def __bool__(self):
        return bool(self.items)


# --------------------------------------------------------------------------
# registry
# --------------------------------------------------------------------------
def gen_registry(rng, namespaces, events, allow_star=True, p_class=0.3):
    """Returns a list of entries:
       ['func', ns, event]  (ns may be '*', event may be '*')
       ['class', ns, [events...]]  (ns may be '*')"""
    reg = []
    for ns in namespaces:
        style = rng.random()
        if style < p_class:
            reg.append(['class', ns, sorted(rng.sample(
                events, rng.randrange(0, len(events) + 1)))])
            if rng.random() < 0.3:
                # a function handler next to the class (function wins)
                reg.append(['func', ns, rng.choice(events)])
        else:
            for ev in events:
                if rng.random() < 0.6:
                    reg.append(['func', ns, ev])
            if allow_star and rng.random() < 0.3:
                reg.append(['func', ns, '*'])
            if rng.random() < 0.15:
                reg.append(['class', ns, sorted(rng.sample(
                    events, rng.randrange(0, len(events) + 1)))])
    if allow_star:
        if rng.random() < 0.25:
            reg.append(['func', '*', rng.choice(events)])
        if rng.random() < 0.2:
            reg.append(['func', '*', '*'])
        if rng.random() < 0.2:
            reg.append(['class', '*', sorted(rng.sample(
                events, rng.randrange(0, len(events) + 1)))])
    return reg


class Registry:
    def __init__(self, entries, reserved=RESERVED_SERVER):
        self.funcs = set()
        self.classes = {}
        self.reserved = reserved
        for e in entries:
            if e[0] == 'func':
                self.funcs.add((e[1], e[2]))
            else:
                self.classes.setdefault(e[1], set()).update(e[2])

    def func_namespaces(self):
        return {ns for ns, _ in self.funcs}

    def resolve(self, ns, event):
        """-> (label_kind, label_ns, label_event, prefix, has_method) or
        None.  The documented order."""
        f = self.funcs
        if event == '*':
            # an event literally named '*' is an ordinary name that cannot
            # have a handler of its own (on('*') IS the catch-all)
            if (ns, '*') in f:
                return ('func', ns, '*', [event], True)
            if ('*', '*') in f:
                return ('func', '*', '*', [event, ns], True)
            if ns in self.classes:
                return ('class', ns, event, [], False)
            if '*' in self.classes:
                return ('class', '*', event, [ns], False)
            return None
        if (ns, event) in f:
            return ('func', ns, event, [], True)
        if event not in self.reserved and (ns, '*') in f:
            return ('func', ns, '*', [event], True)
        if ('*', event) in f:
            return ('func', '*', event, [ns], True)
        if event not in self.reserved and ('*', '*') in f:
            return ('func', '*', '*', [event, ns], True)
        if ns in self.classes:
            return ('class', ns, event, [], event in self.classes[ns])
        if '*' in self.classes:
            return ('class', '*', event, [ns], event in self.classes['*'])
        return None

    def served(self, ns, cfg_namespaces):
        if ns in self.func_namespaces() or ns in self.classes:
            return True
        if cfg_namespaces == '*':
            return True
        return ns in (cfg_namespaces or ['/'])


def install_registry(world, target, entries, plan_fn, who='s', coroutine=True,
                     client=False, extra_class_events=()):
    """Register generated handlers on a server or client object."""
    import socketio
    for e in entries:
        if e[0] == 'func':
            label = (who, 'func', e[1], e[2])
            target.on(e[2], world.make_handler(label, plan_fn, coroutine),
                      namespace=e[1])
    classes = {}
    for e in entries:
        if e[0] == 'class':
            classes.setdefault(e[1], set()).update(e[2])
    for ns, evs in classes.items():
        if world.mode == 'async':
            base = socketio.AsyncClientNamespace if client \
                else socketio.AsyncNamespace
        else:
            base = socketio.ClientNamespace if client else socketio.Namespace
        obj = world.make_namespace(ns, sorted(evs | set(extra_class_events)),
                                   plan_fn, server=who, coroutine=coroutine,
                                   base=base)
        target.register_namespace(obj)


# --------------------------------------------------------------------------
# return shapes
# --------------------------------------------------------------------------
SHAPES = ['none', 'scalar', 'list', 'dict', 'tuple', 'bytes', 'tuple1',
          'nested_bytes', 'false', 'zero', 'empty_tuple', 'str']


def ret_for(shape, tok):
    if shape == 'none':
        return None
    if shape == 'scalar':
        return tok
    if shape == 'list':
        return [tok, 1, 'x']
    if shape == 'dict':
        return {'t': tok, 'n': None}
    if shape == 'tuple':
        return (tok, {'a': [1, 2]}, 3.5)
    if shape == 'bytes':
        return tok.encode() + b'\x00\xff'
    if shape == 'tuple1':
        return (tok,)
    if shape == 'nested_bytes':
        return {'t': tok, 'b': [b'', {'x': b'\x01'}]}
    if shape == 'false':
        return False
    if shape == 'zero':
        return 0
    if shape == 'empty_tuple':
        return ()
    if shape == 'str':
        return 'r-' + tok
    raise ValueError(shape)


def ack_key(msgpack, ns, id, args):
    """Canonical key of an expected ACK packet as the peer's recorder sees
    it."""
    binary = contains_bytes(args) and not msgpack
    return ('BINARY_ACK' if binary else 'ACK', ns, id, trepr(args))


def trepr(v, _d=0):
    """repr that distinguishes types the way typed_eq does and is stable for
    dicts."""
    if _d > 60:
        return '<deep:%d>' % len(repr(v)[:100000])
    if isinstance(v, dict):
        return '{' + ','.join('%r:%s' % (k, trepr(v[k], _d + 1))
                              for k in sorted(v, key=repr)) + '}'
    if isinstance(v, list):
        return '[' + ','.join(trepr(x, _d + 1) for x in v) + ']'
    if isinstance(v, tuple):
        return '(' + ','.join(trepr(x, _d + 1) for x in v) + ')'
    if isinstance(v, bool):
        return 'bool:%r' % v
    if isinstance(v, float):
        return 'float:%r' % v
    return repr(v)


def pkt_key(p):
    t = sio.NAMES[p.type] if isinstance(p.type, int) and 0 <= p.type < 7 \
        else str(p.type)
    return (t, p.nsp, p.id, trepr(p.data))


def multiset_diff(expected, got):
    """-> (missing, surplus) lists."""
    from collections import Counter
    e = Counter(expected)
    g = Counter(got)
    missing = list((e - g).elements())
    surplus = list((g - e).elements())
    return missing, surplus


def legacy_arity(h, n, coroutine, method=False):
    """Wrap a generated (*args) handler into one that accepts exactly n
    positional arguments (the legacy one-argument disconnect handlers the
    servers and clients still support through a TypeError fallback).  The
    arity error is raised by the call itself, before the handler body, as
    for any def with fixed parameters."""
    import asyncio as _asyncio
    if method:
        if coroutine:
            async def m(self_, *args):
                if len(args) != n:
                    raise TypeError('takes %d positional arguments' % n)
                return await h(self_, *args)
        else:
            def m(self_, *args):
                if len(args) != n:
                    raise TypeError('takes %d positional arguments' % n)
                return h(self_, *args)
        return m
    if coroutine:
        async def f(*args):
            if len(args) != n:
                raise TypeError('takes %d positional arguments' % n)
            return await h(*args)
    else:
        def f(*args):
            if len(args) != n:
                raise TypeError('takes %d positional arguments' % n)
            return h(*args)
    return f


def legacy_namespace(nsobj, event, n, coroutine):
    """Give on_<event> of a generated class-based namespace a fixed arity."""
    cls = type(nsobj)
    name = 'on_' + event
    if name in cls.__dict__:
        setattr(cls, name, legacy_arity(cls.__dict__[name], n, coroutine,
                                        method=True))
    return nsobj
