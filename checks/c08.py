"""C08 - client state mirrors the server; disconnect reported once per
namespace.

World: a real client stack (Client under fifo, AsyncClient), function handlers
or class-based namespaces, against a scripted server (real engine.io server,
scripted Socket.IO layer) that answers the requested namespaces with CONNECT /
CONNECT_ERROR / nothing in seeded order and timing, may end namespaces with
DISCONNECT, and whose transport can be severed at any point - including
between the header and an attachment of a binary packet and with callbacks
outstanding."""
import socketio

from sim import sio
from sim.world import make_world
from sim.choices import derive
from sim.util import typed_eq, wire_norm
from .common import V, trepr, REAL_CLIENT, STUBS

PROP = 'C08'
RUNS = {'quick': 5000, 'thorough': 200000}
BUDGET = {'quick': 100, 'thorough': 1500}
RULE = ('one run = one seeded history of connect(namespaces, auth, wait) with '
        'scripted per-namespace answers (accept / refuse / silent, seeded '
        'order and delays), emit/send/call on connected and unconnected '
        'namespaces, disconnect(), server DISCONNECTs, transport loss (also '
        'mid binary packet and with callbacks outstanding) and a further '
        'connect(); non-trivial = a refusal, a loss or a server DISCONNECT '
        'occurred; distinct = distinct SHA-256 of the event log')
REAL = REAL_CLIENT
ASSUMPTIONS = ['E1 (thread world: fifo policy)', 'E2',
               'the scripted server stays protocol-shaped per namespace']
HASHSEED_DEPENDENT = True   # connect(namespaces=None) iterates over a set
SHRINK_LISTS = ['ops']
NSS = ['/', '/a', '/b']
DELAYS = (0.0, 0.0, 0.01, 0.1, 0.4)


def gen(rng, tier):
    mode = rng.choice(['async', 'thread'])
    cfg = {'mode': mode, 'style': rng.choice(['func', 'func', 'class',
                                               'both']),
           'coroutine': rng.random() < 0.6,
           'handler_nss': rng.sample(NSS, rng.randrange(1, 4)),
           'lat': rng.randrange(2),
           # thread world: free schedule between the application thread and
           # the client's reader / handler threads
           'policy': rng.choice(['fifo', 'fifo', 'random', 'pct']),
           # the application's connect handler uses the namespace at once:
           # it emits with a callback (which the server never acknowledges
           # on this connection)
           'connect_emits': rng.random() < 0.3,
           # ... and so does its disconnect handler (a last message, with a
           # callback, from inside the handler)
           'disc_emits': rng.random() < 0.3}
    ops = []
    n = rng.randrange(2, 5)
    for _ in range(n):
        k = rng.random()
        if k < 0.3:
            nss = None
        elif k < 0.45:
            nss = rng.choice(NSS)
        else:
            nss = rng.sample(NSS, rng.randrange(1, 4))
        script = {}
        all_ok = rng.random() < 0.6
        for ns in NSS:
            r = rng.random()
            beh = 'accept' if all_ok or r < 0.6 else \
                ('refuse' if r < 0.9 else 'silent')
            script[ns] = [beh, rng.randrange(len(DELAYS))]
        ops.append(['connect', nss, rng.choice(['none', 'dict', 'callable',
                                                'str']),
                    rng.random() < 0.7, script])
        for _ in range(rng.randrange(0, 7)):
            r = rng.random()
            ns = rng.choice(NSS + ['/zz'])
            if r < 0.4:
                ops.append(['emit', ns, rng.choice(['emit', 'send', 'call',
                                                    'emit_cb', 'emit_bin'])])
            elif r < 0.55:
                ops.append(['sdisc', rng.choice(NSS + ['all'])])
            elif r < 0.65:
                ops.append(['stale_ack', ns])
            elif r < 0.75:
                ops.append(['sevent', ns])
            else:
                ops.append(['check'])
        ops.append([rng.choice(['disconnect', 'sever', 'sever_mid_binary',
                                'sever_with_callbacks', 'sdisc_all',
                                'server_close', 'sever',
                                'late_accept_sever'])])
    if rng.random() < 0.12:
        return gen_reconnect(rng, tier, cfg)
    if rng.random() < 0.08:
        # aimed: a connection made with wait=False on which one namespace is
        # not answered until the very instant the transport goes; then the
        # next connection
        nss = rng.sample(NSS, rng.randrange(1, 4))
        held = rng.choice(nss)
        cfg['policy'] = rng.choice(['random', 'pct'])
        scr = {ns: ['accept', 0] for ns in NSS}
        scr[held] = ['silent', 0]
        ops = [['connect', nss, 'none', False, scr], ['check'],
               ['late_accept_sever'],
               ['connect', rng.choice([nss, [held], None]), 'dict',
                rng.random() < 0.5, {ns: ['accept', 0] for ns in NSS}],
               ['check'], ['sevent', held], ['check'],
               [rng.choice(['disconnect', 'sever', 'sdisc_all'])]]
    return {'cfg': cfg, 'ops': ops}


def gen_reconnect(rng, tier, cfg):
    """A client with automatic reconnection: what it held for the lost
    connection (session ids, callbacks, a half-received binary packet) must
    not reach the connection it makes by itself either."""
    nss = NSS[:rng.randrange(1, len(NSS) + 1)]
    cfg = dict(cfg, scenario='reconnect', nss=nss, handler_nss=nss,
               style='func')
    ops = []
    for _ in range(rng.randrange(1, 4)):
        for _ in range(rng.randrange(0, 4)):
            ops.append([rng.choice(['emit_cb', 'sevent', 'sevent_bin']),
                        rng.choice(nss)])
        ops.append([rng.choice(['sever', 'sever_mid_binary',
                                'sever_mid_binary', 'sever_with_callbacks']),
                    rng.choice(nss)])
    return {'cfg': cfg, 'ops': ops}


def sample(case):
    return {'cfg': case['cfg'], 'ops': case['ops'][:10]}


def run(case):
    cfg = case['cfg']
    w = make_world(cfg['mode'], seed=case['seed'],
                   choices_replay=case.get('choices'),
                   lat=[(0.0,), (0.0, 0.001, 0.003)][cfg['lat']],
                   policy=cfg.get('policy', 'fifo'), pct_depth=2,
                   pct_span=200)
    try:
        if cfg.get('scenario') == 'reconnect':
            return _run_reconnect(case, cfg, w)
        return _run(case, cfg, w)
    finally:
        w.close()


def _run_reconnect(case, cfg, w):
    v = V(PROP)
    rec = w.rec
    ss = w.add_scripted_server('s')
    gen_no = [0]
    accepted = {}

    def on_packet(eio_sid, p):
        if p.type == sio.CONNECT:
            gen_no[0] += 1
            sid = 'sid%d%s' % (gen_no[0], p.nsp)
            accepted[p.nsp] = sid
            return ss.send_pkt(sio.CONNECT, p.nsp, None, {'sid': sid},
                               eio_sid=eio_sid)
    ss.on_packet = on_packet
    c = w.add_client('c', reconnection=True, reconnection_delay=0.2,
                     reconnection_delay_max=0.4, randomization_factor=0)

    def plan(label, args, ev):
        return [('ret', None)]
    coroutine = cfg['coroutine'] and w.mode == 'async'
    nss = list(cfg['nss'])
    for ns in nss:
        for evn in ('connect', 'disconnect', 'ev'):
            c.on(evn, w.make_handler(('c', 'func', ns, evn), plan, coroutine),
                 namespace=ns)
    h = w.call(c.connect, 'http://s', transports=['websocket'],
               namespaces=list(nss), wait_timeout=5)
    w.settle()
    if h.exc is not None or not c.connected:
        return {'harness': 'client failed to connect: %r' % (h.exc,)}

    def runs(event, since):
        out = {}
        for e in rec.events:
            if e['seq'] > since and e['kind'] == 'h_enter' and \
                    e['label'][0] == 'c' and e['label'][3] == event:
                out.setdefault(e['label'][2], []).append(e)
        return out

    def mirror(where):
        got = dict(c.namespaces)
        if got != accepted:
            v.add('namespaces_mirror', '%s: client lists %s, server has '
                  'accepted and not ended %s' % (where, got, accepted),
                  'stale' if set(got.values()) - set(accepted.values())
                  else 'missing')
        elif not c.connected:
            v.add('connected_flag', '%s: connected=False while accepted '
                  'namespaces are %s' % (where, sorted(accepted)),
                  'clear_with_namespaces')

    cb_log = []
    old_ids = []
    probe = [0]

    def send_event(ns, data):
        # one frame at a time: the client handles every message in a thread
        # of its own and relies on those threads starting in order
        for f in ss.frames_for(sio.EVENT, ns, None, data):
            ss.send_frames([f])
            w.settle()

    def probe_events(where):
        """An event on every namespace arrives intact, once."""
        for ns in nss:
            if ns not in accepted or ns not in c.namespaces:
                continue
            probe[0] += 1
            tag = 'P%d' % probe[0]
            seq0 = rec.seq
            send_event(ns, ['ev', tag, b'\x01' + tag.encode()])
            got = [tuple(e['args']) for e in runs('ev', seq0).get(ns, [])]
            if got != [(tag, b'\x01' + tag.encode())]:
                v.add('event_after_reconnect', '%s: the server sent ev(%r, '
                      'bytes) on %s, the handler ran with %s'
                      % (where, tag, ns, trepr(got)),
                      'none' if not got else 'other')

    for opi, op in enumerate(case['ops']):
        k, ns = op
        where = 'op%d %s' % (opi, op)
        if k == 'emit_cb':
            rx0 = len(ss.rx)
            tag = 'E%d' % opi
            w.call(c.emit, 'ev', tag, namespace=ns,
                   callback=lambda *a, tag=tag: cb_log.append((tag, a)))
            w.settle()
            for r in ss.rx[rx0:]:
                if r['pkt'].id is not None:
                    old_ids.append((ns, r['pkt'].id))
        elif k in ('sevent', 'sevent_bin'):
            seq0 = rec.seq
            data = ['ev', 'S%d' % opi] + ([b'bin'] if k == 'sevent_bin'
                                           else [])
            send_event(ns, data)
            got = [tuple(e['args']) for e in runs('ev', seq0).get(ns, [])]
            if got != [tuple(data[1:])]:
                v.add('event_after_reconnect', '%s: handler ran with %s'
                      % (where, trepr(got)), 'live')
        else:
            seq0 = rec.seq
            was = dict(accepted)
            if k == 'sever_mid_binary':
                fr = ss.frames_for(sio.EVENT, ns, None, ['ev', b'a', b'b'])
                ss.send_frames(fr[:1])
                w.settle()
                ss.send_frames(fr[1:2])
                w.settle()
                rec.count('fault.sever_in_binary')
            elif k == 'sever_with_callbacks':
                rx0 = len(ss.rx)
                w.call(c.emit, 'ev', 'pending', namespace=ns,
                       callback=lambda *a: cb_log.append(('pending', a)))
                w.settle()
                for r in ss.rx[rx0:]:
                    if r['pkt'].id is not None:
                        old_ids.append((ns, r['pkt'].id))
                rec.count('fault.sever_with_callbacks')
            accepted.clear()
            for cn in w.net.conns:
                if not cn.severed:
                    cn.sever(0.0, 0.0)
            w.settle()
            w.advance(1.5)          # the client reconnects by itself
            w.settle()
            rec.count('fault.sever_then_reconnect')
            dr = runs('disconnect', seq0)
            for n2 in was:
                n = len(dr.get(n2, []))
                if n != 1:
                    v.add('disconnect_handler_count', '%s: namespace %s was '
                          'connected, disconnect handler ran %d times'
                          % (where, n2, n),
                          'transport_loss:got%d' % min(n, 2))
            mirror(where + ' (after the automatic reconnection)')
            cr = runs('connect', seq0)
            for n2 in accepted:
                n = len(cr.get(n2, []))
                if n != 1 and n2 in c.namespaces:
                    v.add('connect_handler_count', '%s: namespace %s: '
                          'connect handler ran %d times after the '
                          'reconnection' % (where, n2, n))
            n_cb = len(cb_log)
            for n2, id_ in old_ids:
                if n2 in accepted and n2 in c.namespaces:
                    ss.send_pkt(sio.ACK, n2, id_, ['stale'])
                    w.settle()
            if len(cb_log) != n_cb:
                v.add('stale_ack_fired_callback', '%s: ACKs %s of the '
                      'previous connection fired %s'
                      % (where, old_ids, cb_log[n_cb:]))
            del old_ids[:]
            probe_events(where)
    seq0 = rec.seq
    was = dict(accepted) if c.connected else {}
    hd = w.call(c.disconnect)
    w.settle()
    accepted.clear()
    w.advance(2.0)
    w.settle()
    if hd.exc is not None:
        v.add('disconnect_raised', '%r' % (hd.exc,))
    dr = runs('disconnect', seq0)
    for n2 in was:
        n = len(dr.get(n2, []))
        if n != 1:
            v.add('disconnect_handler_count', 'final disconnect(): '
                  'namespace %s, disconnect handler ran %d times' % (n2, n),
                  'client_disconnect:got%d' % min(n, 2))
    if c.connected or c.namespaces:
        v.add('not_fully_disconnected', 'final disconnect(): connected=%s '
              'namespaces=%s' % (c.connected, c.namespaces),
              'client_disconnect')
    if w.mode == 'thread':
        from sim.world import exc_site
        for name, e in w.kernel.thread_errors:
            v.add('thread_raised', '%s: %r in %s' % (name, e, exc_site(e)),
                  '%s@%s' % (type(e).__name__, exc_site(e)))
    for e in rec.errors:
        if 'packet queue is empty' in e['msg']:
            continue
        v.add('error_logged', '%s %s in %s' % (e['msg'], e.get('exc'),
                                               e.get('site')),
              '%s@%s' % ((e.get('exc') or e['msg']).split(':')[0][:40],
                         e.get('site')))
    return {'violations': v.items, 'digest': rec.digest.hex(),
            'nontrivial': True,
            'stats': {'faults': {k: n for k, n in rec.counters.items()
                                 if k.startswith('fault.')}},
            'sim_time': w.now() - 1_700_000_000.0,
            'cfg': '%s/reconnect' % cfg['mode'],
            'choices': w.choices.dump(), 'log': rec.dump_log()}


def _run(case, cfg, w):
    v0 = V(PROP)
    rec = w.rec
    tainted = [False]

    class _VV:
        """After a CONNECT_ERROR for '/' reached a client that had connected
        with wait=False, the known defect (see known_findings.json) has
        reset the client's bookkeeping while the transport and the other
        namespaces live on; everything that follows in the run is reported
        under it."""
        items = v0.items

        def add(self, clause, detail, qual=''):
            if tainted[0]:
                v0.add('root_namespace_refusal_resets_client', detail,
                       clause + (':' + qual if qual else ''))
            else:
                v0.add(clause, detail, qual)
    v = _VV()
    ss = w.add_scripted_server('s')
    script = {}
    gen_no = [0]
    accepted = {}          # model: ns -> sid the server accepted, not ended
    refused = {}
    nontrivial = False

    def on_packet(eio_sid, p):
        if p.type != sio.CONNECT:
            return
        beh, di = script.get(p.nsp, ['refuse', 0])
        delay = DELAYS[di]
        gen_no[0] += 1
        sid = 'sid%d%s' % (gen_no[0], p.nsp)

        def answer(eio_sid=eio_sid, p=p):
            if eio_sid in ss.closed:
                return
            if beh == 'accept':
                accepted[p.nsp] = sid
                ss.send_pkt(sio.CONNECT, p.nsp, None, {'sid': sid},
                            eio_sid=eio_sid)
            elif beh == 'refuse':
                # what a server puts into a refusal is its own business:
                # usually {'message': ...}, but any JSON value may travel
                pays = [{'message': 'refused ' + p.nsp}] * 5 + [
                    '', {}, False, 'nope', ['a', 1], [], None]
                pay = pays[derive(case['seed'], 'refusal', gen_no[0])
                           % len(pays)]
                refused[p.nsp] = pay
                ss.send_pkt(sio.CONNECT_ERROR, p.nsp, None, pay,
                            eio_sid=eio_sid)
        if beh == 'silent':
            return
        if delay <= 0:
            return answer()
        w.after(delay, answer)
    ss.on_packet = on_packet

    c = w.add_client('c', reconnection=False)

    def emit_from_disconnect(ns):
        def cb(*a):
            cb_log.append(('from-disconnect', a))
        if w.mode == 'async':
            async def go():
                try:
                    await c.emit('ev', 'bye', namespace=ns, callback=cb)
                except socketio.exceptions.BadNamespaceError:
                    rec.count('app.emit_from_disconnect_refused')
            return go()
        try:
            c.emit('ev', 'bye', namespace=ns, callback=cb)
        except socketio.exceptions.BadNamespaceError:
            rec.count('app.emit_from_disconnect_refused')

    def emit_from_connect(ns):
        # (the namespace may have been ended again by the time the handler
        # gets to its emit - a refusal of '/' resets the client: then the
        # emit raises BadNamespaceError, which is what it should do)
        def cb(*a):
            cb_log.append(('from-connect', a))
        if w.mode == 'async':
            async def go():
                try:
                    await c.emit('ev', 'from-connect', namespace=ns,
                                 callback=cb)
                except socketio.exceptions.BadNamespaceError:
                    rec.count('app.emit_from_connect_refused')
            return go()
        try:
            c.emit('ev', 'from-connect', namespace=ns, callback=cb)
        except socketio.exceptions.BadNamespaceError:
            rec.count('app.emit_from_connect_refused')

    def plan(label, args, ev):
        if label[3] == 'disconnect':
            # the application's disconnect handler may take a while (and, as
            # a coroutine, suspend): notifications for other namespaces are
            # processed meanwhile
            steps = [('pause', w.choices.pick('app', (0.0, 0.0, 0.002, 0.01),
                                              'dpause'))]
            if cfg.get('disc_emits') and (w.mode == 'thread' or coroutine):
                dns = label[2] if label[2] != '*' else args[0]
                steps.append(('do', lambda: emit_from_disconnect(dns)))
            return steps + [('ret', None)]
        if label[3] == 'connect' and cfg.get('connect_emits'):
            ns = label[2] if label[2] != '*' else args[0]
            return [('do', lambda: emit_from_connect(ns)), ('ret', None)]
        return [('ret', None)]
    coroutine = cfg['coroutine'] and w.mode == 'async'
    events = ['connect', 'disconnect', 'connect_error', 'ev']
    for ns in cfg['handler_nss']:
        if cfg['style'] in ('func', 'both'):
            for evn in events:
                c.on(evn, w.make_handler(('c', 'func', ns, evn), plan,
                                         coroutine), namespace=ns)
        if cfg['style'] in ('class', 'both'):
            # ('both': function handlers and a class-based namespace for the
            # same namespace - the function handlers take precedence, and
            # the namespace is still requested only once)
            base = socketio.AsyncClientNamespace if w.mode == 'async' \
                else socketio.ClientNamespace
            c.register_namespace(w.make_namespace(
                ns, events, plan, server='c', coroutine=coroutine, base=base))
    # catch-all namespace handlers observe the namespaces without handlers
    for evn in ('connect', 'disconnect', 'connect_error'):
        c.on(evn, w.make_handler(('c', 'func', '*', evn), plan, coroutine),
             namespace='*')

    def handler_runs(event, since_seq):
        """-> {ns: [events]} invocations of `event` since a point."""
        out = {}
        for e in rec.events:
            if e['seq'] <= since_seq or e['kind'] != 'h_enter':
                continue
            lab = e['label']
            if lab[0] != 'c' or lab[3] != event:
                continue
            ns = lab[2] if lab[2] != '*' else e['args'][0]
            out.setdefault(ns, []).append(e)
        return out

    def check_mirror(where, strict_flag=True):
        want = dict(accepted)
        got = dict(c.namespaces)
        if got != want:
            pattern = ''
            v.add('namespaces_mirror', '%s: client lists %s, server has '
                  'accepted and not ended %s' % (where, got, want),
                  'stale' if set(got) - set(want) else 'missing')
        for ns in NSS:
            try:
                s = c.get_sid(ns)
            except Exception as e:   # noqa
                s = 'EXC %r' % e
            if s != want.get(ns):
                v.add('get_sid_mirror', '%s: get_sid(%s)=%r, server says %r'
                      % (where, ns, s, want.get(ns)))
        if not want and not ever_accepted[0] and c.connected:
            # nothing was ever accepted on this connection (wait=False, all
            # refused): the property does not say what the flag is
            return
        if strict_flag and bool(c.connected) != bool(want):
            v.add('connected_flag', '%s: connected=%s while accepted '
                  'namespaces are %s' % (where, c.connected, sorted(want)),
                  'set_without_namespaces' if c.connected else
                  'clear_with_namespaces')

    ever_accepted = [False]
    conn_seq = 0           # recorder seq at the start of the current connection
    requested = []
    fully_accepted = False
    out_cbs = []           # callbacks outstanding on the current connection
    cb_log = []
    old_ids = []           # (ns, id) issued on earlier connections
    conn_ids = []          # (ns, id) issued by connect handlers, this one
    connected_at_end = {}

    def end_connection(where, cause, reason):
        """Oracle for the disconnect-once clause + full reset."""
        nonlocal fully_accepted
        was = dict(connected_at_end)
        if fully_accepted:
            runs = handler_runs('disconnect', conn_seq)
            for ns in was:
                n = len(runs.get(ns, []))
                if n != 1:
                    v.add('disconnect_handler_count', '%s (%s): namespace %s '
                          'was connected, disconnect handler ran %d times'
                          % (where, cause, ns, n),
                          '%s:got%d' % (cause, min(n, 2)))
            for ns in runs:
                if ns not in was and ns not in ended_early:
                    v.add('disconnect_handler_for_unconnected', (where, ns))
        accepted.clear()
        if c.connected or c.namespaces or c.eio.state != 'disconnected':
            v.add('not_fully_disconnected', '%s (%s): connected=%s '
                  'namespaces=%s eio.state=%s'
                  % (where, cause, c.connected, c.namespaces, c.eio.state),
                  cause)
        if c.callbacks and any(len(d) > 1 for d in c.callbacks.values()):
            # (after a late CONNECT reply - the known finding - the connect
            # handler ran on the dead client; what it registered stays)
            v.add('callbacks_survive', '%s: %s' % (where, c.callbacks),
                  cause if cause == 'late_reply_transport_loss' else '')
        if c._binary_packet is not None:
            v.add('partial_packet_survives', where)
        fully_accepted = False

    def settle_engineio():
        # engine.io's client, when it is closed with abort=True (server CLOSE,
        # or socketio ending the transport after the last namespace went),
        # drains its queue in _reset() before its write loop has seen the
        # None sentinel; that write loop then lingers until its own timeout
        # (ping_interval + 5 s) and would steal the sentinel of the next
        # connection.  This is inside the trusted dependency (E5): let it
        # time out before the same client object connects again.
        w.advance(1010.0)
        w.settle()

    ended_early = set()
    live = False
    for opi, op in enumerate(case['ops']):
        k = op[0]
        where = 'op%d %s' % (opi, op[:4])
        if k == 'connect':
            if live:
                continue
            _, nss, authk, wait, scr = op
            old_ids.extend(conn_ids)
            del conn_ids[:]
            script.clear()
            script.update(scr)
            accepted.clear()
            refused.clear()
            ended_early.clear()
            auth = {'none': None, 'dict': {'u': 1}, 'str': 'tok',
                    'callable': (lambda: {'from': 'callable'})}[authk]
            want_auth = {'none': {}, 'dict': {'u': 1}, 'str': 'tok',
                         'callable': {'from': 'callable'}}[authk]
            if nss is None:
                requested = sorted(cfg['handler_nss'])
            elif isinstance(nss, str):
                requested = [nss]
            else:
                requested = list(nss)
            conn_seq = rec.seq
            rx0 = len(ss.rx)
            h = w.call(c.connect, 'http://s', auth=auth, namespaces=nss,
                       transports=['websocket'], wait=wait, wait_timeout=1)
            w.settle()
            w.advance(1.6)
            w.settle()
            for r in ss.rx[rx0:]:
                pk = r['pkt']
                if pk.base == sio.EVENT and pk.id is not None and \
                        pk.data == ['ev', 'from-connect']:
                    # never acknowledged on this connection: stale from
                    # the next one on
                    conn_ids.append((pk.nsp, pk.id))
            # one CONNECT per requested namespace, carrying the auth
            con = [r['pkt'] for r in ss.rx[rx0:] if r['pkt'].type ==
                   sio.CONNECT]
            if sorted(p.nsp for p in con) != sorted(requested):
                v.add('connect_frames', '%s: requested %s, server received '
                      'CONNECT for %s' % (where, requested,
                                          [p.nsp for p in con]))
            for p in con:
                if not typed_eq(p.data if p.data is not None else {},
                                want_auth):
                    v.add('connect_auth', '%s: CONNECT %s carried %s, auth '
                          'was %s' % (where, p.nsp, trepr(p.data),
                                      trepr(want_auth)))
            behs = {ns: script[ns][0] for ns in requested}
            all_ok = all(b == 'accept' for b in behs.values())
            if not wait and behs.get('/') == 'refuse' and len(requested) > 1:
                tainted[0] = True
            if not all_ok:
                nontrivial = True
            if wait:
                if all_ok:
                    if h.exc is not None:
                        v.add('connect_raised_although_all_accepted',
                              '%s: %r' % (where, h.exc))
                else:
                    if h.exc is None or type(h.exc).__name__ != \
                            'ConnectionError':
                        v.add('connect_did_not_raise', '%s: answers %s, '
                              'connect() -> %r' % (where, behs, h.exc))
                    # reported to the connect_error handler
                    ce = handler_runs('connect_error', conn_seq)
                    for ns, b in behs.items():
                        if b == 'refuse' and len(ce.get(ns, [])) != 1:
                            v.add('connect_error_handler', '%s: refusal of '
                                  '%s reported %d times'
                                  % (where, ns, len(ce.get(ns, []))))
                        elif b == 'refuse' and ns in refused:
                            e0 = ce[ns][0]
                            got = list(e0['args'])
                            if e0['label'][2] == '*':
                                got = got[1:]      # (the namespace first)
                            pay = refused[ns]
                            want = [] if pay is None else list(pay) \
                                if isinstance(pay, list) else [pay]
                            if not typed_eq(got, want):
                                v.add('connect_error_arguments', '%s: %s '
                                      'was refused with %s, the handler '
                                      'received %s' % (where, ns, trepr(pay),
                                                       trepr(got)))
                    # the client gives up the whole connection
                    accepted.clear()
                    if c.connected or c.namespaces or \
                            c.eio.state != 'disconnected':
                        v.add('not_fully_disconnected_after_failed_connect',
                              '%s: answers %s; afterwards connected=%s '
                              'namespaces=%s eio.state=%s'
                              % (where, behs, c.connected, c.namespaces,
                                 c.eio.state),
                              'namespaces_listed' if c.namespaces else
                              'other')
                    live = False
                    continue
            else:
                if h.exc is not None:
                    v.add('connect_nowait_raised', '%s: %r' % (where, h.exc))
                for ns, b in behs.items():
                    pass
            # connect handler once per accepted namespace
            cr = handler_runs('connect', conn_seq)
            for ns in requested:
                n = len(cr.get(ns, []))
                want_n = 1 if behs[ns] == 'accept' else 0
                if n != want_n:
                    v.add('connect_handler_count', '%s: namespace %s (%s): '
                          'connect handler ran %d times'
                          % (where, ns, behs[ns], n))
            fully_accepted = all_ok
            ever_accepted[0] = bool(accepted)
            live = bool(accepted) or c.eio.state == 'connected'
            check_mirror(where, strict_flag=True)
            connected_at_end.clear()
            connected_at_end.update(accepted)
            out_cbs.clear()
            # stale ACKs of the previous connection fire nothing
            for ns, id_ in old_ids:
                if (ns, id_) in conn_ids:
                    continue      # the id is in use again on this connection
                if ns in accepted:
                    n_cb = len(cb_log)
                    ss.send_pkt(sio.ACK, ns, id_, ['stale'])
                    w.settle()
                    if len(cb_log) != n_cb:
                        v.add('stale_ack_fired_callback', '%s: ACK %s/%r of '
                              'the previous connection fired %s'
                              % (where, ns, id_, cb_log[n_cb:]))
            old_ids.clear()
        elif not live:
            continue
        elif k == 'emit':
            _, ns, kind = op
            rx0 = len(ss.rx)
            tag = 'E%d' % opi
            if kind == 'emit':
                h = w.call(c.emit, 'ev', tag, namespace=ns)
            elif kind == 'send':
                h = w.call(c.send, tag, namespace=ns)
            elif kind == 'emit_bin':
                h = w.call(c.emit, 'ev', (tag, b'\x00\x01'), namespace=ns)
            elif kind == 'emit_cb':
                def cb(*a, tag=tag):
                    cb_log.append((tag, a))
                h = w.call(c.emit, 'ev', tag, namespace=ns, callback=cb)
            else:
                h = w.call(c.call, 'ev', tag, namespace=ns, timeout=0.3)
            w.settle()
            w.advance(0.4)
            got = [r['pkt'] for r in ss.rx[rx0:] if r['pkt'].base ==
                   sio.EVENT]
            if ns in accepted:
                if len(got) != 1 or got[0].nsp != ns:
                    v.add('emit_frames', '%s: server received %s'
                          % (where, got))
                if kind in ('emit', 'send', 'emit_cb', 'emit_bin') and \
                        h.exc is not None:
                    v.add('emit_raised', '%s: %r' % (where, h.exc))
                if kind in ('emit_cb', 'call') and got and \
                        got[0].id is not None:
                    old_ids.append((ns, got[0].id))
            else:
                if h.exc is None or type(h.exc).__name__ != \
                        'BadNamespaceError':
                    v.add('no_bad_namespace_error', '%s: namespace %s is not '
                          'connected (accepted: %s), %s -> %r'
                          % (where, ns, sorted(accepted), kind, h.exc),
                          'listed' if ns in c.namespaces else 'unlisted')
                if got:
                    v.add('frame_left_for_unconnected_namespace',
                          '%s: %s' % (where, got))
        elif k == 'sevent':
            ns = op[1]
            if ns in accepted:
                ss.send_pkt(sio.EVENT, ns, None, ['ev', 'S%d' % opi])
                w.settle()
        elif k == 'stale_ack':
            ns = op[1]
            n_cb = len(cb_log)
            ss.send_pkt(sio.ACK, ns if ns in NSS else '/', 9999, ['x'])
            w.settle()
            if len(cb_log) != n_cb:
                v.add('unknown_ack_fired_callback', where)
        elif k == 'check':
            check_mirror(where)
        elif k == 'sdisc':
            tgt = op[1]
            todo = sorted(accepted) if tgt == 'all' else \
                ([tgt] if tgt in accepted else [])
            if not todo:
                continue
            nontrivial = True
            seq0 = rec.seq
            for ns in todo:
                ss.send_pkt(sio.DISCONNECT, ns, None, None)
                accepted.pop(ns, None)
            w.settle()
            runs = handler_runs('disconnect', seq0)
            if fully_accepted:
                for ns in todo:
                    n = len(runs.get(ns, []))
                    if n != 1:
                        v.add('disconnect_handler_count', '%s: server ended '
                              '%s, handler ran %d times' % (where, ns, n),
                              'server_disconnect:got%d' % min(n, 2))
                    ended_early.add(ns)
                    connected_at_end.pop(ns, None)
            check_mirror(where)
            if not accepted:
                # the last namespace ended: the whole connection goes
                w.settle()
                connected_at_end.clear()
                end_connection(where, 'last_namespace_ended',
                               'server disconnect')
                live = False
                settle_engineio()
        elif k in ('disconnect', 'sever', 'sever_mid_binary',
                   'sever_with_callbacks', 'sdisc_all', 'server_close',
                   'late_accept_sever'):
            nontrivial = True
            if k == 'sdisc_all' and not accepted:
                k = 'sever'
            held = [ns for ns in requested
                    if script.get(ns, ['x'])[0] == 'silent'
                    and ns not in accepted and ns not in refused]
            if k == 'late_accept_sever' and (not held or tainted[0]):
                k = 'sever'
            if k == 'late_accept_sever':
                # the server's answer to a CONNECT it had not answered yet
                # and the loss of the transport reach the client in the same
                # instant: engine.io hands the answer to a handler task /
                # thread of its own, which may get to run only after the
                # loss has been processed
                ns = held[0]
                gen_no[0] += 1
                fr = ss.frames_for(sio.CONNECT, ns, None,
                                   {'sid': 'sid%d%s' % (gen_no[0], ns)})
                conn = [cn for cn in w.net.conns if not cn.severed][-1]

                def after(d, data, conn=conn, fr=fr):
                    if d == 's2c' and isinstance(data, str) and \
                            data[1:] == fr[0]:
                        conn.after_hook = None
                        conn.sever_now()
                conn.after_hook = after
                ss.send_frames(fr)
                rec.count('fault.late_reply_with_loss')
                w.settle()
                if not conn.severed:
                    conn.after_hook = None
                    conn.sever(0.0, 0.0)
                w.settle()
                cause, reason = 'late_reply_transport_loss', \
                    'transport error'
                w.settle()
                end_connection(where, cause, reason)
                live = False
                settle_engineio()
                continue
            if k == 'sdisc_all':
                for ns in sorted(accepted):
                    ss.send_pkt(sio.DISCONNECT, ns, None, None)
                w.settle()
                cause, reason = 'server_disconnect', 'server disconnect'
            elif k == 'disconnect':
                h = w.call(c.disconnect)
                w.settle()
                if h.exc is not None:
                    v.add('disconnect_raised', '%s: %r' % (where, h.exc))
                cause, reason = 'client_disconnect', 'client disconnect'
            elif k == 'server_close':
                ss.close_transport()
                w.settle()
                cause, reason = 'server_close', 'server disconnect'
            else:
                if k == 'sever_mid_binary' and accepted:
                    ns = sorted(accepted)[0]
                    fr = ss.frames_for(sio.EVENT, ns, None,
                                       ['ev', b'a', b'b'])
                    # one frame at a time: the client handles every message
                    # in a thread of its own and relies on those threads
                    # starting in order (they do); a free schedule would
                    # otherwise let the attachment overtake its header
                    ss.send_frames(fr[:1])
                    w.settle()
                    ss.send_frames(fr[1:2])
                    w.settle()
                    rec.count('fault.sever_in_binary')
                elif k == 'sever_with_callbacks' and accepted:
                    ns = sorted(accepted)[0]
                    rx0 = len(ss.rx)
                    w.call(c.emit, 'ev', 'pending', namespace=ns,
                           callback=lambda *a: cb_log.append(('pending', a)))
                    w.settle()
                    for r in ss.rx[rx0:]:
                        if r['pkt'].id is not None:
                            old_ids.append((ns, r['pkt'].id))
                    rec.count('fault.sever_with_callbacks')
                for cn in w.net.conns:
                    if not cn.severed:
                        cn.sever(0.0, 0.0)
                w.settle()
                cause, reason = 'transport_loss', 'transport error'
            w.settle()
            end_connection(where, cause, reason)
            live = False
            settle_engineio()
    if w.mode == 'thread':
        from sim.world import exc_site
        for name, e in w.kernel.thread_errors:
            v.add('thread_raised', '%s: %r in %s' % (name, e, exc_site(e)),
                  '%s@%s' % (type(e).__name__, exc_site(e)))
    for e in rec.errors:
        if 'packet queue is empty' in e['msg']:
            continue
        v.add('error_logged', '%s %s in %s' % (e['msg'], e.get('exc'),
                                               e.get('site')),
              '%s@%s' % ((e.get('exc') or e['msg']).split(':')[0][:40],
                         e.get('site')))
    return {'violations': v.items, 'digest': rec.digest.hex(),
            'nontrivial': nontrivial,
            'stats': {'faults': {k: n for k, n in rec.counters.items()
                                 if k.startswith('fault.')}},
            'sim_time': w.now() - 1_700_000_000.0,
            'cfg': '%s/%s' % (cfg['mode'], cfg['style']),
            'choices': w.choices.dump(), 'log': rec.dump_log()}
