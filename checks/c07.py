"""C07 - multi-host pub/sub: a cluster behaves like one server holding all
clients.

World: 2-4 real servers of one kind (threaded or asyncio) with
SimPubSubManagers on one SimBus (ordered, reliable, pickled messages),
optionally a write-only manager without a server, 3-8 wire peers placed on
hosts at random; the reference is one room model holding all peers.
Regimes: immediate (every host drains the bus after each op: exact
refinement) and lagged (each host consumes at its own seeded pace while ops
keep coming: at-most-once, eligibility, exactness for unraced messages,
callbacks exactly once after the final drain)."""
from sim import sio
from sim.world import make_world
from sim.bus import SimBus, SimPubSubManager, AsyncSimPubSubManager
from sim.util import typed_eq
from .common import V, trepr, REAL_SERVER, STUBS
from .scene import Scene
from .c03 import RoomModel

PROP = 'C07'
RUNS = {'quick': 4000, 'thorough': 150000}
BUDGET = {'quick': 100, 'thorough': 1500}
RULE = ('one run = one placement of 3-8 wire peers on 2-4 hosts and one '
        'seeded history of room operations, disconnects, emits (with and '
        'without callback, also from a write-only manager) and peer ACKs '
        'issued on arbitrary hosts, in the immediate or the lagged regime; '
        'non-trivial = an operation was issued on a host that does not own '
        'the client it concerns, or an emit crossed hosts; distinct = '
        'distinct SHA-256 of the event log')
REAL = REAL_SERVER + ['socketio.PubSubManager / AsyncPubSubManager listener, '
                      'publisher and handlers (subclassed only for _publish / '
                      '_listen, which are abstract by design)']
ASSUMPTIONS = ['E3 the bus is reliable and totally ordered']
SHRINK_LISTS = ['ops']
ROOMS = ['r1', 'r2', 'lobby', 7]
LAGS = [(0.0,), (0.0, 0.01, 0.05), (0.0, 0.02, 0.2, 1.0)]


def gen(rng, tier):
    mode = rng.choice(['async', 'thread'])
    nhosts = rng.randrange(2, 5)
    npeers = rng.randrange(3, 9)
    regime = rng.choice(['immediate', 'immediate', 'lagged'])
    cfg = {'mode': mode, 'nhosts': nhosts, 'regime': regime,
           'write_only': rng.random() < 0.5,
           'lags': rng.randrange(1, len(LAGS)) if regime == 'lagged' else 0,
           'place': [rng.randrange(nhosts) for _ in range(npeers)],
           'nss': ['/'] if rng.random() < 0.6 else ['/', '/a']}
    ops = []
    nss = cfg['nss']
    for p in range(npeers):
        for ns in nss:
            if rng.random() < 0.85:
                ops.append(['connect', p, ns])
    n = rng.randrange(8, 30) if tier == 'quick' else rng.randrange(8, 45)

    def room():
        if rng.random() < 0.75:
            return ['room', rng.choice(ROOMS)]
        return ['sidof', rng.randrange(npeers)]

    def via():
        if cfg['write_only'] and rng.random() < 0.2:
            return 'w'
        return rng.randrange(nhosts)
    for _ in range(n):
        k = rng.random()
        p = rng.randrange(npeers)
        ns = rng.choice(nss)
        if k < 0.2:
            ops.append(['enter', rng.randrange(nhosts), p, ns, room()])
        elif k < 0.28:
            ops.append(['leave', rng.randrange(nhosts), p, ns, room()])
        elif k < 0.33:
            ops.append(['close', rng.randrange(nhosts), ns, room()])
        elif k < 0.37:
            ops.append(['disc', rng.randrange(nhosts), p, ns])
        elif k < 0.39:
            # "the host leaves, kick the guest": p's disconnect handler
            # disconnects q, wherever q is connected
            ops.append(['disc_kick', rng.randrange(nhosts), p,
                        rng.randrange(npeers), ns])
        elif k < 0.42:
            ops.append(['connect', p, ns])
        elif k < 0.72:
            tk = rng.random()
            to = None if tk < 0.2 else room() if tk < 0.6 else \
                ['list', [room() for _ in range(rng.randrange(1, 3))]] \
                if tk < 0.75 else ['sidof', rng.randrange(npeers)]
            sk = rng.random()
            skip = None if sk < 0.6 else ['sidof', rng.randrange(npeers)] \
                if sk < 0.85 else ['list', [['sidof', rng.randrange(npeers)]
                                            for _ in range(2)]]
            ops.append(['emit', via(), ns, to, skip])
        elif k < 0.77:
            # an application task that emits and, without yielding in
            # between, changes the membership (emit 'bye' then leave the
            # room / disconnect the client / close the room)
            tk = rng.random()
            to = None if tk < 0.2 else room()
            then = rng.choice([['leave', p, room()], ['disc', p],
                               ['close', room()]])
            ops.append(['emit_then', rng.randrange(nhosts), ns, to, None,
                        then])
        elif k < 0.84:
            ops.append(['emit_cb', rng.randrange(nhosts), p, ns])
        elif k < 0.86:
            # the publish of this one fails (once): the emit raises; what
            # was outstanding before, and what is issued afterwards, must
            # not notice
            ops.append(['emit_cb_pubfail', rng.randrange(nhosts), p, ns])
        elif k < 0.92:
            ops.append(['ack', p])
        elif k < 0.95:
            # the client acknowledges and is disconnected (from any host)
            # while the relayed acknowledgement is still on its way
            ops.append(['emit_cb', rng.randrange(nhosts), p, ns])
            ops.append(['ack_then_disc', p, rng.randrange(nhosts)])
        else:
            ops.append(['adv', rng.choice([0.01, 0.1, 0.5])])
    if rng.random() < 0.15:
        # aimed: two callbacks outstanding for one client, issued by a host
        # the client is not connected to, acknowledged newest first
        p = rng.randrange(npeers)
        ns = rng.choice(nss)
        others = [h for h in range(nhosts) if h != cfg['place'][p]]
        if others:
            h = rng.choice(others)
            at = rng.randrange(len(ops) // 2, len(ops) + 1)
            ops[at:at] = [['connect', p, ns], ['emit_cb', h, p, ns],
                          ['emit_cb', h, p, ns], ['ack', p, 'newest'],
                          ['ack', p, 'newest']]
    elif rng.random() < 0.12:
        # aimed: the acknowledgement is still on its way when a host that
        # does not hold the client asks for its disconnection
        p = rng.randrange(npeers)
        ns = rng.choice(nss)
        others = [h for h in range(nhosts) if h != cfg['place'][p]]
        if others:
            cfg['regime'] = 'lagged'
            cfg['lags'] = rng.randrange(1, len(LAGS))
            h = rng.choice(others)
            at = rng.randrange(len(ops) // 2, len(ops) + 1)
            ops[at:at] = [['connect', p, ns], ['emit_cb', h, p, ns],
                          ['ack_then_disc', p, rng.choice(others)]]
    return {'cfg': cfg, 'ops': ops}


def sample(case):
    return {'cfg': case['cfg'], 'ops': case['ops'][:14]}


def run(case):
    cfg = case['cfg']
    w = make_world(cfg['mode'], seed=case['seed'],
                   choices_replay=case.get('choices'), policy='fifo')
    try:
        return _run(case, cfg, w)
    finally:
        w.close()


def _run(case, cfg, w):
    v = V(PROP)
    rec = w.rec
    is_async = w.mode == 'async'
    bus = SimBus(w, lags=LAGS[cfg['lags']])
    Mgr = AsyncSimPubSubManager if is_async else SimPubSubManager
    hosts = []
    kick_map = {}      # (sid, ns) -> sid its disconnect handler disconnects

    def dplan(label, args, ev):
        tgt = kick_map.pop((args[0], label[2]), None)
        if tgt is None:
            return [('ret', None)]
        me = w.servers[label[0]]
        rec.count('app.disconnect_from_disconnect_handler')
        return [('do', lambda: me.disconnect(tgt, namespace=label[2])),
                ('ret', None)]
    for h in range(cfg['nhosts']):
        name = 'h%d' % h
        m = Mgr(bus, name)
        srv = w.add_server(name, manager=m, namespaces=list(cfg['nss']),
                           async_handlers=True)
        for ns in cfg['nss']:
            srv.on('connect', w.make_handler((name, 'func', ns, 'connect'),
                                             lambda l, a, e: [('ret', None)],
                                             coroutine=False), namespace=ns)
            srv.on('disconnect', w.make_handler(
                (name, 'func', ns, 'disconnect'), dplan,
                coroutine=is_async), namespace=ns)
        srv.manager_initialized = True
        if is_async:
            w.call(_ainit, m)
        else:
            m.initialize()
        hosts.append(srv)
    wo = None
    if cfg['write_only']:
        wo = Mgr(bus, 'w', write_only=True)
    w.settle()
    immediate = cfg['regime'] == 'immediate'
    sc = Scene(w)
    model = RoomModel()
    owner_host = {}        # sid -> host index
    nontrivial = False
    emits = {}             # tag -> dict(expect set at issue, eligible, raced)
    n_emit = 0
    cb_log = []
    cb_expected = {}       # tag -> args acknowledged by the peer
    cb_issued = {}         # tag -> dict(sid, host)
    outstanding = {}       # p -> list of (ns, id, tag) learned from rx
    stats = {'cross_host_ops': 0, 'cross_host_emits': 0,
             'callbacks_crossed': 0, 'emit_raced_membership': 0,
             'membership_ops_raced': 0}

    def drain():
        """Let every host consume everything published so far."""
        for _ in range(40):
            w.settle(horizon=2.5)
            if bus.all_consumed():
                break
        w.settle()

    def res_room(r, ns):
        if r[0] == 'room':
            return r[1]
        s = sc.sid(r[1], ns)
        return s if s is not None else 'no-such-sid-%d' % r[1]

    def res_target(t, ns):
        if t is None:
            return None
        if t[0] == 'list':
            return [res_room(x, ns) for x in t[1]]
        return res_room(t, ns)

    import copy
    snaps = [copy.deepcopy(model.m)]   # snaps[k] = model after k ops
    taint = [None]
    pending_mops = []                  # [op index, bus index] membership
    #                                    ops that may still be in flight

    def touch_membership(rooms_changed, ns):
        pass

    def after_membership(ns):
        pass

    def flights_update():
        """Which membership ops / emits have been consumed by every host?"""
        def consumed(j):
            return j is None or all(h.manager.cursor > j for h in hosts)
        pending_mops[:] = [m for m in pending_mops if not consumed(m[1])]
        for e in emits.values():
            if e.get('end') is None and consumed(e['index']):
                e['end'] = len(snaps) - 1

    def learn(mark):
        for pe, pk in sc.since(mark):
            if pk.base == sio.EVENT and isinstance(pk.data, list) and \
                    pk.data[:1] == ['q'] and pk.id is not None:
                p = getattr(pe, 'label', None)
                tag = pk.data[1]
                if tag not in cb_issued:
                    # (the emit whose publish was made to fail: a follower
                    # of the sid on the issuing host may still be served
                    # locally when a membership change is in flight; nobody
                    # answers it)
                    continue
                lst = outstanding.setdefault(p, [])
                if not any(t == tag for _, _, t in lst):
                    lst.append((pk.nsp, pk.id, tag))

    def make_cb(tag):
        def cb(*args):
            rec.add('cb', tag=tag, args=args)
            cb_log.append((tag, list(args)))
        return cb

    def ack_payload(tag):
        # acknowledgements with no, one falsy, one or several arguments; a
        # single argument that is itself a list / empty list / dict (must
        # not be mistaken for several arguments on its way over the channel)
        n = int(tag[1:])
        return [[tag, {'k': 1}], [], [None], [0], [tag], [False, ''],
                [[1, tag]], [[]], [{'k': [tag]}], [[[tag]], 2]][n % 10]

    mark_all = sc.mark()
    for opi, op in enumerate(case['ops']):
        k = op[0]
        where = 'op%d %s' % (opi, op)
        mark = sc.mark()
        n_log0 = len(bus.log)
        snap_before = len(snaps) - 1
        if k == 'connect':
            _, p, ns = op
            if p not in sc.peers or not sc.alive(p):
                sc.open(p, server='h%d' % cfg['place'][p])
            if sc.sid(p, ns):
                continue
            sid = sc.connect(p, ns)
            if sid:
                touch_membership(None, ns)
                model.connect(sid, ns)
                owner_host[sid] = cfg['place'][p]
                after_membership(ns)
        elif k in ('enter', 'leave'):
            _, hi, p, ns, r = op
            sid = sc.sid(p, ns)
            if not sid:
                continue
            room = res_room(r, ns)
            if owner_host[sid] != hi:
                nontrivial = True
                stats['cross_host_ops'] += 1
            touch_membership(None, ns)
            w.api('h%d' % hi, 'enter_room' if k == 'enter' else 'leave_room',
                  sid, room, namespace=ns)
            if k == 'enter':
                model.enter(sid, ns, room)
            else:
                model.leave(sid, ns, room)
            after_membership(ns)
        elif k == 'close':
            _, hi, ns, r = op
            room = res_room(r, ns)
            touch_membership(None, ns)
            w.api('h%d' % hi, 'close_room', room, namespace=ns)
            model.close(ns, room)
            after_membership(ns)
            stats['cross_host_ops'] += 1
        elif k == 'disc':
            _, hi, p, ns = op
            sid = sc.sid(p, ns)
            if not sid:
                continue
            if owner_host[sid] != hi:
                nontrivial = True
                stats['cross_host_ops'] += 1
            touch_membership(None, ns)
            w.api('h%d' % hi, 'disconnect', sid, namespace=ns)
            sc.forget(p, ns)
            model.disconnect(sid, ns)
            after_membership(ns)
        elif k == 'emit_cb_pubfail':
            _, hi, p, ns = op
            sid = sc.sid(p, ns)
            if not sid or owner_host[sid] == hi or \
                    set(model.recipients(ns, sid, None)) != {sid}:
                continue     # (a local recipient would still be served;
                #              followers of the sid would make it a
                #              multi-recipient callback emit)
            bus.fail_publish['h%d' % hi] = True
            hh = w.api('h%d' % hi, 'emit', 'q', 'never-%d' % opi, to=sid,
                       namespace=ns,
                       callback=lambda *a: cb_log.append(('never', a)))
            w.settle(horizon=0.0)
            bus.fail_publish.pop('h%d' % hi, None)
            hh.expected_failure = True
            nontrivial = True
        elif k == 'disc_kick':
            _, hi, p, q, ns = op
            sid, qsid = sc.sid(p, ns), sc.sid(q, ns)
            if not sid or not qsid or p == q or not immediate:
                # (lagged regime: the nested request is published only when
                # the owning host gets to the first one - an operation whose
                # flight has no known end when it is issued)
                continue
            if owner_host[sid] != owner_host[qsid]:
                nontrivial = True
                stats['cross_host_ops'] += 1
            kick_map[(sid, ns)] = qsid
            touch_membership(None, ns)
            w.api('h%d' % hi, 'disconnect', sid, namespace=ns)
            sc.forget(p, ns)
            sc.forget(q, ns)
            model.disconnect(sid, ns)
            model.disconnect(qsid, ns)
            after_membership(ns)
        elif k == 'emit':
            _, via, ns, to_s, skip_s = op
            to = res_target(to_s, ns)
            skip = res_target(skip_s, ns)
            n_emit += 1
            tag = 'E%d' % n_emit
            recips = set(model.recipients(ns, to, skip))
            n_log = len(bus.log)
            if via == 'w':
                if is_async:
                    w.call(wo.emit, 'ev', tag, namespace=ns, room=to,
                           skip_sid=skip)
                else:
                    w.call(wo.emit, 'ev', tag, namespace=ns, room=to,
                           skip_sid=skip)
                vh = None
            else:
                w.api('h%d' % via, 'emit', 'ev', tag, to=to, skip_sid=skip,
                      namespace=ns)
                vh = via
            w.settle(horizon=0.0)
            idx = n_log if len(bus.log) > n_log else None
            lo = min([m[0] for m in pending_mops] + [snap_before] +
                     ([taint[0]] if taint[0] is not None else []))
            emits[tag] = {'ns': ns, 'to': to, 'skip': skip, 'via': vh,
                          'expect': recips, 'eligible': set(recips),
                          'raced': False, 'index': idx, 'done': False,
                          'where': where, 'lo': lo, 'end': None}
            if any(owner_host.get(s) != vh for s in recips):
                nontrivial = True
                stats['cross_host_emits'] += 1
        elif k == 'emit_then':
            _, hi, ns, to_s, skip_s, then = op
            to = res_target(to_s, ns)
            skip = res_target(skip_s, ns)
            srv_h = hosts[hi]
            tk = then[0]
            if tk in ('leave', 'disc'):
                tsid = sc.sid(then[1], ns)
                if not tsid:
                    continue
            n_emit += 1
            tag = 'E%d' % n_emit
            recips = set(model.recipients(ns, to, skip))
            n_log = len(bus.log)
            if tk == 'leave':
                troom = res_room(then[2], ns)
                second = (srv_h.leave_room, (tsid, troom), {'namespace': ns})
            elif tk == 'disc':
                second = (srv_h.disconnect, (tsid,), {'namespace': ns})
            else:
                troom = res_room(then[1], ns)
                second = (srv_h.close_room, (troom,), {'namespace': ns})
            if is_async:
                async def both(second=second):
                    await srv_h.emit('ev', tag, to=to, skip_sid=skip,
                                     namespace=ns)
                    await second[0](*second[1], **second[2])
            else:
                def both(second=second):
                    srv_h.emit('ev', tag, to=to, skip_sid=skip, namespace=ns)
                    second[0](*second[1], **second[2])
            w.call(both, _label=('emit_then', tk))
            w.settle(horizon=0.0)
            idx = n_log if len(bus.log) > n_log else None
            lo = min([m[0] for m in pending_mops] + [snap_before] +
                     ([taint[0]] if taint[0] is not None else []))
            emits[tag] = {'ns': ns, 'to': to, 'skip': skip, 'via': hi,
                          'expect': recips, 'eligible': set(recips),
                          'raced': False, 'index': idx, 'done': False,
                          'where': where, 'lo': lo, 'end': None}
            if tk == 'leave':
                model.leave(tsid, ns, troom)
            elif tk == 'disc':
                sc.forget(then[1], ns)
                model.disconnect(tsid, ns)
            else:
                model.close(ns, troom)
            stats['emit_then_membership_change'] = stats.get(
                'emit_then_membership_change', 0) + 1
        elif k == 'emit_cb':
            _, hi, p, ns = op
            sid = sc.sid(p, ns)
            if not sid:
                continue
            n_emit += 1
            tag = 'G%d' % n_emit
            cb_issued[tag] = {'sid': sid, 'host': hi, 'p': p}
            if owner_host[sid] != hi:
                nontrivial = True
                stats['callbacks_crossed'] += 1
            w.api('h%d' % hi, 'emit', 'q', tag, to=sid, namespace=ns,
                  callback=make_cb(tag))
        elif k == 'ack':
            p = op[1]
            lst = outstanding.get(p, [])
            if lst and sc.alive(p):
                # any of the outstanding ones, not necessarily the oldest
                ns, id_, tag = lst.pop(
                    -1 if len(op) > 2 and op[2] == 'newest' else
                    w.choices.draw('app', len(lst), 'which_ack'))
                if sc.sid(p, ns) == cb_issued[tag]['sid']:
                    pay = ack_payload(tag)
                    sc.peers[p].send_pkt(sio.ACK, ns, id_, pay)
                    cb_expected[tag] = pay
        elif k == 'ack_then_disc':
            _, p, hi = op
            lst = outstanding.get(p, [])
            if lst and sc.alive(p):
                ns, id_, tag = lst.pop(0)
                sid = sc.sid(p, ns)
                if sid == cb_issued[tag]['sid']:
                    pay = ack_payload(tag)
                    sc.peers[p].send_pkt(sio.ACK, ns, id_, pay)
                    cb_expected[tag] = pay
                    # the client's own host has the ACK (and has relayed
                    # it, if the emit came from elsewhere) before the
                    # disconnect is asked for
                    w.settle(horizon=0.0)
                    touch_membership(None, ns)
                    w.api('h%d' % hi, 'disconnect', sid, namespace=ns)
                    sc.forget(p, ns)
                    model.disconnect(sid, ns)
                    after_membership(ns)
                    stats['ack_then_disconnect'] = stats.get(
                        'ack_then_disconnect', 0) + 1
        elif k == 'adv':
            w.advance(op[1])
        if immediate:
            drain()
        else:
            w.settle(horizon=0.0)
        if k in ('enter', 'leave', 'close', 'disc', 'connect', 'emit_then',
                 'ack_then_disc', 'disc_kick'):
            if pending_mops and taint[0] is None:
                # a membership change issued while another one is still in
                # flight: the hosts may apply the two in either order (a
                # locally applied close_room can overtake an enter_room that
                # is still on the bus), so from here on the membership is
                # only known up to the states passed through since the older
                # one was issued
                taint[0] = min(m[0] for m in pending_mops)
                stats['membership_ops_raced'] += 1
            # in flight until every host has consumed the LAST message the
            # operation published (emit_then publishes two)
            pending_mops.append([snap_before, len(bus.log) - 1
                                 if len(bus.log) > n_log0 else None])
        snaps.append(copy.deepcopy(model.m))
        flights_update()
        learn(mark)
        if immediate:
            _check_emits(v, w, sc, emits, exact=True)
            # rooms() on the owning host equals the model
            for (p, ns), sid in sc.live_sids():
                got = hosts[owner_host[sid]].rooms(sid, ns)
                want = model.rooms(sid, ns)
                if sorted(map(repr, got)) != sorted(map(repr, want)):
                    v.add('rooms_listing', '%s: host h%d rooms(%s,%s)=%s, '
                          'model %s' % (where, owner_host[sid], sid, ns, got,
                                        want))
    # ---- final drain ---------------------------------------------------
    drain()
    learn(mark_all)
    # answer what is still outstanding so every callback can complete
    for p, lst in list(outstanding.items()):
        while lst and sc.alive(p):
            ns, id_, tag = lst.pop(0)
            if sc.sid(p, ns) == cb_issued[tag]['sid']:
                pay = ack_payload(tag)
                sc.peers[p].send_pkt(sio.ACK, ns, id_, pay)
                cb_expected[tag] = pay
    drain()
    flights_update()
    # lagged regime: who was addressed at some instant of the flight (from
    # the issue of the oldest membership change still in flight when the emit
    # was issued, to the emit's consumption by the last host)?
    for tag, e in emits.items():
        if e['done']:
            continue
        hi_ = e['end'] if e['end'] is not None else len(snaps) - 1
        sets = []
        for kk in range(e['lo'], min(hi_, len(snaps) - 1) + 1):
            mm = RoomModel()
            mm.m = snaps[kk]
            sets.append(frozenset(mm.recipients(e['ns'], e['to'],
                                                e['skip'])))
        e['eligible'] = set().union(*sets) if sets else set(e['expect'])
        e['raced'] = len(set(sets)) > 1 or (
            taint[0] is not None and e['lo'] <= taint[0])
        if e['raced']:
            stats['emit_raced_membership'] += 1
    _check_emits(v, w, sc, emits, exact=immediate, final=True)
    fired = {}
    for tag, args in cb_log:
        fired[tag] = fired.get(tag, 0) + 1
        if tag not in cb_expected:
            v.add('callback_without_ack', tag)
        elif not typed_eq(args, cb_expected[tag]):
            v.add('callback_arguments', '%s: %s' % (tag, trepr(args)))
    for tag in cb_expected:
        if fired.get(tag, 0) != 1:
            v.add('callback_count', '%s (issued on h%d for a client on h%d) '
                  'fired %d times' % (tag, cb_issued[tag]['host'],
                                      owner_host[cb_issued[tag]['sid']],
                                      fired.get(tag, 0)),
                  'got%d' % min(fired.get(tag, 0), 2))
    if not bus.all_consumed():
        v.add('listener_stopped', 'cursors %s of %d'
              % ([h.manager.cursor for h in hosts], len(bus.log)))
    for e in rec.errors:
        v.add('error_logged', '%s %s in %s' % (e['msg'], e.get('exc'),
                                               e.get('site')),
              '%s@%s' % ((e.get('exc') or e['msg']).split(':')[0][:40],
                         e.get('site')))
    if w.mode == 'thread':
        from sim.world import exc_site
        for name, e in w.kernel.thread_errors:
            v.add('thread_raised', '%s: %r in %s' % (name, e, exc_site(e)),
                  '%s@%s' % (type(e).__name__, exc_site(e)))
    for o in w.ops:
        if getattr(o, 'expected_failure', False):
            if o.done and o.exc is None:
                v.add('publish_failure_not_reported', repr(o.label))
            continue
        if o.done and o.exc is not None:
            v.add('api_raised', '%s raised %r in %s' % (o.label, o.exc,
                                                        o.site),
                  '%s@%s' % (type(o.exc).__name__, o.site))
    return {'violations': v.items, 'digest': rec.digest.hex(),
            'nontrivial': nontrivial, 'stats': {'probes': stats,
                                                'bus_messages': len(bus.log)},
            'sim_time': w.now() - 1_700_000_000.0,
            'cfg': '%s/%dhosts/%s' % (cfg['mode'], cfg['nhosts'],
                                      cfg['regime']),
            'choices': w.choices.dump(), 'log': rec.dump_log()}


async def _ainit(m):
    m.initialize()


def _check_emits(v, w, sc, emits, exact, final=False):
    """Compare what every peer received for every emit with the model."""
    got = {}
    for pe in w.peers:
        for r in pe.rx:
            pk = r['pkt']
            if pk.base == sio.EVENT and isinstance(pk.data, list) and \
                    pk.data[:1] == ['ev'] and len(pk.data) == 2:
                key = (pk.data[1], id(pe), pk.nsp)
                got[key] = got.get(key, 0) + 1
    names = {id(pe): pe.idx for pe in w.peers}
    for tag, e in emits.items():
        if e['done']:
            continue
        if not exact and not final:
            continue
        e['done'] = True
        mine = {k2: n for k2, n in got.items() if k2[0] == tag}
        for k2, n in mine.items():
            if n > 1:
                v.add('delivered_twice', '%s %s: peer %d got %d copies'
                      % (tag, e['where'], names[k2[1]], n))

        def conns(sids):
            out = set()
            for sid in sids:
                p, ns2, pe = sc.owner[sid]
                out.add((tag, id(pe), ns2))
            return out
        gotset = set(mine)
        if exact or not e['raced']:
            want = conns(e['expect'])
            if gotset != want:
                v.add('recipients', '%s %s: delivered to %s, single server '
                      'would deliver to %s'
                      % (tag, e['where'],
                         sorted((names[a], b) for _, a, b in gotset),
                         sorted((names[a], b) for _, a, b in want)),
                      'extra' if gotset - want else 'missing')
        else:
            elig = conns(e['eligible'])
            if gotset - elig:
                v.add('delivered_to_never_addressed', '%s %s: %s'
                      % (tag, e['where'],
                         sorted((names[a], b) for _, a, b in gotset - elig)))
