"""C05 - incoming events: one handler invocation, one matching ACK, to the
sender only.

World: one real server (threaded or asyncio, real engine.io underneath), 2-4
wire peers on overlapping namespaces.  Generated: per peer a sequence of
EVENT / BINARY_EVENT frames with adversarial ids, for connected and
unconnected namespaces, handled and unhandled names, interleaved with
connects, disconnects and severs; the frames of one burst are in flight
together, handlers pause for seeded durations.  Oracle: the model below."""
from sim import sio
from sim.world import make_world
from sim.choices import derive
from sim.util import typed_eq, wire_norm, expect_args, gen_value
from .common import (V, Registry, gen_registry, install_registry, ret_for,
                     SHAPES, ack_key, pkt_key, multiset_diff, trepr,
                     REAL_SERVER, STUBS)

PROP = 'C05'
RUNS = {'quick': 12000, 'thorough': 400000}
BUDGET = {'quick': 100, 'thorough': 1500}
RULE = ('one run = one seeded case (server configuration, handler registry, '
        'op list of connects/events/disconnects/severs for 2-4 wire peers) '
        'executed under seeded network latencies and handler pauses; '
        'non-trivial = at least two events from different peers were in '
        'flight in the same burst or a fault fired; distinct = distinct '
        'SHA-256 of the full event log (frames, handler calls, virtual '
        'timestamps)')
REAL = REAL_SERVER
ASSUMPTIONS = ['E1 per-connection FIFO delivery', 'E2 pipe never corrupts',
               'engine.io, asyncio, threading trusted (run for real)']
SHRINK_LISTS = ['ops']   # (a burst op shrinks as a whole)

NSS = ['/', '/a', '/b']
EVENTS = ['e1', 'e2', 'msg', 'x y']
LATS = [(0.0,), (0.0, 0.001, 0.004), (0.0, 0.0, 0.002, 0.01, 0.05)]
PAUSES = (0.0, 0.0, 0.001, 0.003, 0.02)


def gen(rng, tier):
    mode = rng.choice(['async', 'async', 'thread'])
    nss = rng.sample(NSS, rng.randrange(1, 4))
    reg = gen_registry(rng, nss, EVENTS)
    cfg = {
        'mode': mode,
        'async_handlers': rng.random() < 0.5,
        'msgpack': rng.random() < 0.2,
        'coroutine': rng.random() < 0.7,
        'lat': rng.randrange(len(LATS)),
        'namespaces': rng.choice([None, None, '*', ['/', '/a']]),
        'policy': rng.choice(['fifo', 'random', 'pct']),
        'raise_p': rng.choice([0, 0, 1, 2]),       # out of 8
    }
    npeers = rng.randrange(2, 5)
    shapes = {ev: rng.choice(SHAPES) for ev in EVENTS + ['other']}
    ops = []
    alive = set()
    for p in range(npeers):
        ops.append(['open', p])
        alive.add(p)
    ops.append(['settle'])
    tok = 0
    shared_ids = [rng.choice([0, 1, 2, 7, 10**12, 2**63, 10**30])
                  for _ in range(2)]
    for phase in range(rng.randrange(2, 6)):
        for _ in range(rng.randrange(1, 8)):
            if not alive:
                break
            p = rng.choice(sorted(alive))
            k = rng.random()
            ns = rng.choice(NSS)
            if k < 0.25:
                ops.append(['connect', p, ns])
            elif k < 0.85:
                tok += 1
                ev = rng.choice(EVENTS + ['other'])
                extra = [gen_value(rng, 2, allow_bytes=True)
                         for _ in range(rng.randrange(0, 3))]
                idk = rng.random()
                if idk < 0.3:
                    id = None
                elif idk < 0.6:
                    id = rng.choice(shared_ids)
                else:
                    id = rng.choice([0, 1, 3, 99, 2**31, 10**20,
                                     rng.randrange(1000)])
                ops.append(['ev', p, ns, ev, extra, id, 'T%d' % tok])
            elif k < 0.90:
                ops.append(['disc', p, ns])
            elif k < 0.915:
                # several packets of one client in ONE polling payload: the
                # server handles them back to back (events, then possibly
                # the client's own DISCONNECT of that namespace)
                sub = []
                for _ in range(rng.randrange(2, 5)):
                    tok += 1
                    ev = rng.choice(EVENTS + ['other'])
                    sub.append(['ev', p, ns if rng.random() < 0.8
                                else rng.choice(NSS), ev,
                                [gen_value(rng, 1, allow_bytes=True)
                                 for _ in range(rng.randrange(0, 2))],
                                rng.choice([None, 0, 1, 3, 99,
                                            rng.randrange(1000)]),
                                'T%d' % tok])
                if rng.random() < 0.6:
                    sub.append(['disc', p, ns])
                ops.append(['burst', p, sub])
            elif k < 0.94:
                # the server ends the namespace; its (slow) disconnect
                # handler is still running when further events arrive
                ops.append(['sdisc', p, ns])
            else:
                if rng.random() < 0.5:
                    ops.append(['sever_now', p])
                    alive.discard(p)
        ops.append(['settle'])
        if rng.random() < 0.25 and alive:
            p = rng.choice(sorted(alive))
            ops.append(['sever', p])
            alive.discard(p)
            ops.append(['settle'])
    return {'cfg': cfg, 'registry': reg, 'shapes': shapes, 'ops': ops}


def sample(case):
    return {'cfg': case['cfg'], 'registry': case['registry'],
            'ops': case['ops'][:12]}


def run(case):
    cfg = case['cfg']
    v = V(PROP)
    reg = Registry(case['registry'])
    shapes = case['shapes']
    msgpack = cfg['msgpack']
    w = make_world(cfg['mode'], seed=case['seed'],
                   choices_replay=case.get('choices'), msgpack=msgpack,
                   lat=LATS[cfg['lat']], policy=cfg.get('policy', 'fifo'))
    try:
        return _run(case, cfg, v, reg, shapes, msgpack, w)
    finally:
        w.close()


def _run(case, cfg, v, reg, shapes, msgpack, w):
    srv = w.add_server('s', async_handlers=cfg['async_handlers'],
                       namespaces=cfg['namespaces'])
    raised = set()

    def plan(label, args, ev):
        # label = (who, kind, ns, event-or-*)
        event = label[3]
        tok = None
        for a in args:
            if isinstance(a, str) and a.startswith('T') and a[1:].isdigit():
                tok = a
                break
        if tok is None:
            if event == 'disconnect':
                return [('pause', w.choices.pick(
                    'app', (0.0, 0.03, 0.08, 0.2), 'dpause')), ('ret', None)]
            return [('ret', None)]
        # the concrete event name: for catch-alls it is in the arguments
        name = event
        if event == '*':
            name = args[0]
        shape = shapes.get(name, shapes['other'])
        pause = w.choices.pick('app', PAUSES, 'pause')
        if cfg.get('raise_p') and (
                derive(case['seed'], 'hraise', repr(tok)) % 8 < cfg['raise_p']
                if cfg.get('raise_by_content') else
                w.choices.chance('faults', cfg['raise_p'], 8, 'hraise')):
            # fault: the application handler fails; the event still counts
            # as handled once, nothing is acknowledged, and the client's
            # later events are served as usual
            w.rec.count('fault.handler_raise')
            raised.add(tok)
            return [('pause', pause),
                    ('raise', RuntimeError('injected handler failure'))]
        return [('pause', pause), ('ret', ret_for(shape, tok))]

    coroutine = cfg['coroutine'] and cfg['mode'] == 'async'
    install_registry(w, srv, case['registry'], plan, who='s',
                     coroutine=coroutine, extra_class_events=('disconnect',))
    for ns_ in sorted(reg.func_namespaces() - {'*'}):
        srv.on('disconnect', w.make_handler(('s', 'func', ns_, 'disconnect'),
                                            plan, coroutine), namespace=ns_)
    peers = {}
    # model state per peer
    conn = {}          # p -> {ns: sid}
    pending_connect = {}   # p -> list of ns whose answer is awaited
    expected_rx = {}   # p -> list of keys
    optional_rx = {}   # p -> list of keys that may or may not arrive (racy)
    expect_inv = []    # (tok, label, args) must be invoked exactly once
    racing_ns = set()  # (p, ns, sid) ended by the server under a free schedule
    racing_done = set()
    no_inv = []        # tokens that must never be invoked
    all_recs = []
    order = {}         # p -> list of toks in arrival order (handled ones)
    inflight_burst = {}  # p -> toks posted in the current burst
    burst_peers = set()
    nontrivial = False
    sids_seen = set()

    def cur_sid(p, ns):
        return conn.get(p, {}).get(ns)

    def absorb_connect_answers(p):
        """After a settle: read CONNECT / CONNECT_ERROR answers."""
        peer = peers[p]
        for r in peer.rx:
            if r.get('absorbed'):
                continue
            pk = r['pkt']
            if pk.type == sio.CONNECT:
                r['absorbed'] = True
                lst = pending_connect.get(p, [])
                if pk.nsp in lst:
                    lst.remove(pk.nsp)
                sid = (pk.data or {}).get('sid')
                if sid in sids_seen:
                    v.add('sid_reused', 'sid %r issued twice' % sid)
                sids_seen.add(sid)
                conn.setdefault(p, {})[pk.nsp] = sid
            elif pk.type == sio.CONNECT_ERROR:
                r['absorbed'] = True
                lst = pending_connect.get(p, [])
                if pk.nsp in lst:
                    lst.remove(pk.nsp)

    collector = [None]

    def tx(p, type, ns, id, data):
        if collector[0] is not None:
            collector[0].append((type, ns, id, data))
        else:
            peers[p].send_pkt(type, ns, id, data)

    todo = []
    for op in case['ops']:
        if op[0] == 'burst':
            todo.append(['burst_begin', op[1]])
            todo.extend(op[2])
            todo.append(['burst_end', op[1]])
        else:
            todo.append(op)
    for op in todo:
        k = op[0]
        if k == 'burst_begin':
            # the payload is the only thing of this client in flight (one
            # channel at a time, as a polling client does it)
            w.settle()
            for q in peers:
                absorb_connect_answers(q)
            collector[0] = []
            continue
        if k == 'burst_end':
            pk, collector[0] = collector[0], None
            p = op[1]
            if pk and p in peers and not peers[p].conn.severed:
                peers[p].post_pkts(pk)
                w.rec.count('fault.polling_payload_burst')
            w.settle()
            continue
        if k == 'open':
            p = op[1]
            if p in peers:
                continue
            peers[p] = w.add_peer('s')
            peers[p].open()
            conn[p] = {}
            expected_rx[p] = []
            optional_rx[p] = []
            order[p] = []
        elif k == 'settle':
            w.settle()
            racing_done |= racing_ns
            racing_ns.clear()
            for p in peers:
                absorb_connect_answers(p)
            if len(burst_peers) >= 2:
                nontrivial = True
            burst_peers = set()
            inflight_burst = {}
        elif k == 'connect':
            p, ns = op[1], op[2]
            if p not in peers or peers[p].conn is None or \
                    peers[p].conn.severed:
                continue
            # to keep the model exact, a CONNECT and the events that depend
            # on its answer are separated by a settle: the sid is needed
            w.settle()
            for q in peers:
                absorb_connect_answers(q)
            peers[p].send_pkt(sio.CONNECT, ns, None, None)
            w.settle()
            absorb_connect_answers(p)
        elif k == 'ev':
            _, p, ns, event, extra, id, tok = op
            if p not in peers or peers[p].conn.severed:
                continue
            if msgpack and id is not None and id >= 2**64:
                id = id % (2**63)
            args = [tok] + list(extra)
            tx(p, sio.EVENT, ns, id, [event] + args)
            burst_peers.add(p)
            inflight_burst.setdefault(p, []).append(tok)
            sid = cur_sid(p, ns)
            racing = [x for x in racing_ns if x[0] == p and x[1] == ns]
            if sid is None and racing:
                # may still be handled for the old sid, or not at all
                continue
            if sid is None:
                no_inv.append(tok)
                continue
            tgt = reg.resolve(ns, event)
            if tgt is None:
                no_inv.append(tok)
                continue
            kind, lns, lev, prefix, has_method = tgt
            label = ('s', kind, lns, lev)
            want_args = tuple(prefix + [sid] + wire_norm(args))
            rec = {'tok': tok, 'label': label, 'args': want_args, 'peer': p,
                   'racy': False, 'ns': ns}
            if has_method:
                expect_inv.append(rec)
                order[p].append(tok)
            else:
                no_inv.append(tok)
            if id is not None:
                shape = shapes.get(event, shapes['other'])
                ret = ret_for(shape, tok) if has_method else None
                rec['ack'] = ack_key(msgpack, ns, id, expect_args(ret))
                expected_rx[p].append(rec['ack'])
            rec['has_method'] = has_method
            all_recs.append(rec)
            inflight_burst.setdefault((p, 'recs'), []).append(rec)
        elif k == 'disc':
            p, ns = op[1], op[2]
            if p not in peers or peers[p].conn.severed:
                continue
            tx(p, sio.DISCONNECT, ns, None, None)
            conn[p].pop(ns, None)
            if any(x[0] == p and x[1] == ns for x in racing_ns):
                # free thread schedule: the client's own DISCONNECT may be
                # handled before the server's disconnect() call gets to run
                key = ('DISCONNECT', ns, None, 'None')
                if key in expected_rx[p]:
                    expected_rx[p].remove(key)
                    optional_rx[p].append(key)
        elif k == 'sdisc':
            p, ns = op[1], op[2]
            if p not in peers or peers[p].conn.severed:
                continue
            sid = cur_sid(p, ns)
            if sid is None:
                continue
            # events this peer posted earlier in the burst are still on
            # the wire (latency) while the API call starts at once: they may
            # arrive before or after the mark
            for rec in inflight_burst.get((p, 'recs'), []):
                if rec['ns'] == ns:
                    rec['racy'] = True
            w.api('s', 'disconnect', sid, namespace=ns)
            w.rec.count('fault.server_disconnect_in_burst')
            expected_rx[p].append(('DISCONNECT', ns, None, 'None'))
            inflight_burst.setdefault((p, 'sdisc'), []).append(
                ('DISCONNECT', ns, None, 'None'))
            # from the moment disconnect() has marked the client, its events
            # on that namespace are events of a client that is not connected.
            # The call starts before any frame posted after it is delivered
            # (asyncio: FIFO ready queue; threads: fifo policy); under the
            # random / PCT thread policies either order is possible.
            conn[p].pop(ns, None)
            if cfg['mode'] == 'thread' and cfg.get('policy') != 'fifo':
                racing_ns.add((p, ns, sid))
            nontrivial = True
        elif k in ('sever', 'sever_now'):
            p = op[1]
            if p not in peers or peers[p].conn.severed:
                continue
            if k == 'sever_now':
                # frames of this burst may be lost, handled, or handled
                # without the ACK getting through: relax narrowly
                for rec in inflight_burst.get((p, 'recs'), []):
                    rec['racy'] = True
                for key in inflight_burst.get((p, 'sdisc'), []):
                    if key in expected_rx[p]:
                        expected_rx[p].remove(key)
                        optional_rx[p].append(key)
                w.rec.count('fault.sever_in_burst')
            peers[p].sever()
            conn[p] = {}
            nontrivial = True
    w.settle()

    # ------------------------------------------------------------ oracle
    enters = w.rec.of('h_enter')
    by_tok = {}
    for e in enters:
        for a in e['args']:
            if isinstance(a, str) and a.startswith('T') and a[1:].isdigit():
                by_tok.setdefault(a, []).append(e)
                break
    for rec in expect_inv:
        got = by_tok.get(rec['tok'], [])
        if rec['racy']:
            if len(got) > 1:
                v.add('invoked_more_than_once', (rec['tok'], len(got)))
        elif len(got) != 1:
            v.add('invocation_count', 'event %s on %s: expected 1 invocation '
                  'of %s, got %d' % (rec['tok'], rec['label'][2],
                                     rec['label'], len(got)),
                  'got%d' % min(len(got), 2))
            continue
        for e in got:
            if tuple(e['label']) != rec['label']:
                v.add('wrong_target', 'event %s: expected %s, ran %s'
                      % (rec['tok'], rec['label'], e['label']))
            elif not typed_eq(tuple(e['args']), rec['args']):
                v.add('wrong_arguments', 'event %s: expected %s got %s'
                      % (rec['tok'], trepr(rec['args']), trepr(e['args'])))
    for tok in no_inv:
        if by_tok.get(tok):
            v.add('invoked_without_target_or_connection',
                  'event %s ran %s' % (tok, [e['label']
                                             for e in by_tok[tok]]))
    # per-peer received packets
    for p, peer in peers.items():
        got = [pkt_key(r['pkt']) for r in peer.rx if not r.get('absorbed')]
        if cfg['mode'] == 'thread' and cfg['async_handlers'] and \
                frames_interleaved(peer.rx_raw):
            # known finding: two handler threads of one client interleaved
            # the frames of their multi-frame (binary) ACKs on the wire
            v.add('interleaved_binary_ack_frames', 'peer %d: raw frames %s'
                  % (p, [f if isinstance(f, str) else '<%d bytes>' % len(f)
                         for f in peer.rx_raw][-8:]))
            continue
        exp_strict = list(expected_rx[p])
        exp_opt = []
        for r in all_recs:
            if r['peer'] == p and 'ack' in r and r['tok'] in raised:
                exp_strict.remove(r['ack'])      # a failed handler: no ACK
            elif r['peer'] == p and r['racy'] and 'ack' in r:
                exp_strict.remove(r['ack'])
                exp_opt.append(r['ack'])
        exp_opt += optional_rx[p]
        missing, surplus = multiset_diff(exp_strict, got)
        for kx in list(surplus):
            if kx in exp_opt:
                exp_opt.remove(kx)
                surplus.remove(kx)
        if missing:
            v.add('ack_missing', 'peer %d: expected ACK(s) %s not received; '
                  'received %s' % (p, missing[:3], got[:6]))
        # ACKs of events that raced a server-side disconnect under a free
        # thread schedule may or may not have been produced
        surplus = [x for x in surplus
                   if not (x[0] in ('ACK', 'BINARY_ACK') and any(
                       r[0] == p and r[1] == x[1] for r in racing_done))]
        if surplus:
            kinds = sorted({s[0] for s in surplus})
            v.add('unexpected_packet', 'peer %d received %s it should not '
                  'have' % (p, surplus[:3]), ','.join(kinds))
    # ordering with async_handlers disabled
    if not cfg['async_handlers']:
        exits = {e['enter']: e['seq'] for e in w.rec.events
                 if e['kind'] in ('h_exit', 'h_raise')}
        for p, toks in order.items():
            last_exit = 0
            for tok in toks:
                es = by_tok.get(tok, [])
                if len(es) != 1:
                    continue
                e = es[0]
                if e['seq'] < last_exit:
                    v.add('order', 'peer %d: handler for %s started before '
                          'the previous one returned' % (p, tok))
                last_exit = exits.get(e['seq'], e['seq'])
    for e in w.rec.errors:
        if 'injected handler failure' in (e.get('exc') or ''):
            continue
        v.add('error_logged', '%s %s' % (e['msg'], e.get('exc')),
              (e.get('exc') or '').split(':')[0])
    stats = {'faults': {k: n for k, n in w.rec.counters.items()
                        if k.startswith('fault.')},
             'events': len(expect_inv) + len(no_inv),
             'acks_expected': sum(len(x) for x in expected_rx.values()),
             'net': {k: n for k, n in w.rec.counters.items()
                     if k.startswith('net.')}}
    return {'violations': v.items, 'digest': w.rec.digest.hex(),
            'nontrivial': nontrivial, 'stats': stats,
            'sim_time': w.now() - 1_700_000_000.0,
            'cfg': '%s/ah=%s/%s' % (cfg['mode'], cfg['async_handlers'],
                                    'msgpack' if msgpack else 'json'),
            'choices': w.choices.dump(),
            'log': w.rec.dump_log()}


def frames_interleaved(raw):
    """True if, in the raw engine.io frames a peer received, the header of a
    binary Socket.IO packet was followed by another text frame before all of
    its attachments had arrived."""
    pending = 0
    for f in raw:
        if isinstance(f, (bytes, bytearray)):
            if pending:
                pending -= 1
            continue
        if not f.startswith('4'):
            continue        # engine.io control packets may come in between
        if pending:
            return True
        body = f[1:]
        if body[:1] in ('5', '6'):
            j = 1
            while j < len(body) and body[j].isdigit():
                j += 1
            if j > 1 and body[j:j + 1] == '-':
                pending = int(body[1:j])
    return False
