"""Scene: bookkeeping shared by the server-side checks - wire peers, which
namespace of which transport holds which session id, reading what a peer
received since a mark."""
from sim import sio


class Scene:
    def __init__(self, w):
        self.w = w
        self.peers = {}        # p -> current peer object (transport)
        self.sids = {}         # (p, ns) -> sid on the current transport
        self.owner = {}        # sid -> (p, ns, peer object)
        self.all_sids = []
        self.marks = {}

    # -- transports -------------------------------------------------------
    def alive(self, p):
        pe = self.peers.get(p)
        return pe is not None and pe.conn is not None and \
            not pe.conn.severed and not pe.transport_closed

    def open(self, p, server='s', settle=True, transport='websocket'):
        pe = self.w.add_peer(server, transport=transport) \
            if transport != 'websocket' else self.w.add_peer(server)
        pe.label = p
        pe.open()
        self.peers[p] = pe
        for key in [k for k in self.sids if k[0] == p]:
            del self.sids[key]
        if settle:
            self.w.settle()
        return pe

    def drop_transport(self, p):
        """Model side of a transport end: every sid of p is gone."""
        gone = []
        for key in [k for k in self.sids if k[0] == p]:
            gone.append((key[1], self.sids.pop(key)))
        return gone

    # -- namespaces -------------------------------------------------------
    def connect(self, p, ns, auth=None):
        """Send CONNECT and settle; returns the sid or None if refused."""
        pe = self.peers[p]
        n0 = len(pe.rx)
        pe.send_pkt(sio.CONNECT, ns, None, auth)
        self.w.settle()
        for r in pe.rx[n0:]:
            pk = r['pkt']
            if pk.nsp == ns and pk.type == sio.CONNECT:
                sid = (pk.data or {}).get('sid')
                self.sids[(p, ns)] = sid
                self.owner[sid] = (p, ns, pe)
                self.all_sids.append(sid)
                return sid
        return None

    def forget(self, p, ns):
        return self.sids.pop((p, ns), None)

    def sid(self, p, ns):
        return self.sids.get((p, ns))

    def live_sids(self, ns=None):
        return [(k, s) for k, s in sorted(self.sids.items(), key=repr)
                if ns is None or k[1] == ns]

    # -- reading ----------------------------------------------------------
    def mark(self):
        return {id(pe): len(pe.rx) for pe in self.all_peer_objects()}

    def all_peer_objects(self):
        return list(self.w.peers)

    def since(self, mark):
        """-> list of (peer object, Pkt) received since the mark."""
        out = []
        for pe in self.all_peer_objects():
            for r in pe.rx[mark.get(id(pe), 0):]:
                out.append((pe, r['pkt']))
        return out
